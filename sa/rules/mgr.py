"""Helpers shared by the manager rules (C01, C03, C07, C14, C18, C19)."""
from __future__ import annotations

import ast
from typing import Callable, Dict, List, Optional, Set, Tuple

from .. import cfg as C, flow, guards
from ..program import AnalysisError, FuncInfo, ModuleInfo, Program, norm, unparse, walk_local
from ..util import calls_in, is_method_call, node_calls, path_of, recv_of

MGR = "pyrtma.manager"
CORE = "pyrtma.core_defs"


def const_resolver(prog: Program, m: ModuleInfo) -> Callable[[ast.AST], Optional[object]]:
    """ast Name/Attribute -> value of the core_defs (or own-module) constant it denotes, else None."""
    cache: Dict[str, object] = {}

    def res(n: ast.AST):
        t = unparse(n)
        if t in cache:
            return cache[t]
        v = None
        try:
            if isinstance(n, ast.Attribute) and isinstance(n.value, ast.Name) and n.value.id in m.imports:
                tgt = m.imports[n.value.id]
                if tgt in prog.modules and n.attr in prog.modules[tgt].assigns:
                    v = prog.eval_const(m, n)
            elif isinstance(n, ast.Name):
                if n.id in m.imports:
                    tgt = m.imports[n.id]
                    modname, _, nm = tgt.rpartition(".")
                    if modname in prog.modules and nm in prog.modules[modname].assigns:
                        v = prog.eval_const(m, n)
                elif n.id in m.assigns and n.id.isupper():
                    v = prog.eval_const(m, n)
        except AnalysisError:
            v = None
        cache[t] = v
        return v

    return res


def mt_constants(prog: Program) -> Dict[str, int]:
    return {k: v for k, v in prog.module_constants(CORE, "MT_").items() if isinstance(v, int)}


class Dispatch:
    """Type dispatch of a handler function (process_message): for each message-type constant compared
    against the dispatch subject, the set of CFG nodes that can execute when the subject equals it, and
    the set for 'any other type'."""

    def __init__(self, prog: Program, f: FuncInfo):
        self.prog, self.f = prog, f
        self.res = const_resolver(prog, f.module)
        self.cm = guards.copy_map(f.node)
        self.g = C.build(f.node)
        self.gs = flow.guard_states(self.g)
        mts = mt_constants(prog)
        by_val: Dict[int, str] = {}
        for k, v in mts.items():
            by_val.setdefault(v, k)
        subjects: Dict[str, int] = {}
        self.types: Dict[str, int] = {}
        for n in walk_local(f.node):
            if isinstance(n, ast.Compare) and len(n.ops) == 1 and isinstance(n.ops[0], (ast.Eq, ast.NotEq, ast.In, ast.NotIn)):
                sides = [n.left, n.comparators[0]]
                for a, b in (sides, sides[::-1]):
                    cands = b.elts if isinstance(b, (ast.Tuple, ast.List, ast.Set)) else [b]
                    vals = [self.res(x) for x in cands]
                    if vals and all(isinstance(v, int) for v in vals) and all(unparse(x).split(".")[-1].startswith("MT_") or unparse(x) == "ALL_MESSAGE_TYPES" for x in cands):
                        s = norm(guards.subst(a, self.cm))
                        subjects[s] = subjects.get(s, 0) + 1
                        for x, v in zip(cands, vals):
                            self.types[unparse(x).split(".")[-1]] = v
        if not subjects:
            raise AnalysisError(f"anchor vanished: no message-type dispatch found in {f.key}")
        self.subject = max(subjects, key=lambda s: subjects[s])
        self.subject_expr = guards.parse(self.subject)
        self._cache: Dict[object, Set[int]] = {}

    def _facts_fold(self, facts):
        return [(guards.fold_consts(guards.subst(e, self.cm), self.res), pol) for e, pol in facts]

    def nodes_under(self, type_name: Optional[str]) -> Set[int]:
        """CFG node ids executable when subject == type (None: subject differs from every dispatched type)."""
        if type_name in self._cache:
            return self._cache[type_name]
        if type_name is None:
            extra = [(guards.parse(f"{self.subject} == {v}"), False) for v in sorted(set(self.types.values()))]
        else:
            extra = [(guards.parse(f"{self.subject} == {self.types[type_name]}"), True)]
        out = set()
        for n in self.g.nodes:
            for facts in self.gs.at(n):
                if guards.satisfiable(self._facts_fold(facts) + extra):
                    out.add(n.id)
                    break
        self._cache[type_name] = out
        return out

    def follow_under(self, type_name: Optional[str]):
        ids = self.nodes_under(type_name)
        return lambda e: e.src in ids and e.dst in ids

    def call_nodes(self, pred: Callable[[ast.Call], bool], under: Optional[str] = "__all__") -> List[C.Node]:
        ids = None if under == "__all__" else self.nodes_under(under)
        return [n for n in self.g.nodes if (ids is None or n.id in ids) and any(pred(c) for c in node_calls(n))]


def self_call(name: str) -> Callable[[ast.Call], bool]:
    return lambda c: is_method_call(c, name) and path_of(recv_of(c)) == "self"


def lookup_aliases(func_node, mvar: str):
    """{local: `self.modules.get(<mvar>.conn)`} for locals assigned exactly once from that lookup"""
    lookup = f"self.modules.get({mvar}.conn)"
    defs = {}
    for n in walk_local(func_node):
        if isinstance(n, ast.Assign) and len(n.targets) == 1 and isinstance(n.targets[0], ast.Name):
            defs.setdefault(n.targets[0].id, []).append(n.value)
    return {k: v[0] for k, v in defs.items() if len(v) == 1 and norm(v[0]) == lookup}


def not_live_edges(g, mvar: str):
    """Edges of a CFG taken only when module `mvar` is no longer in the manager's table
    (idempotence / liveness guards such as `self.modules.get(m.conn) is not m`, `m.conn not in self.modules`)."""
    out = set()
    lookup = f"self.modules.get({mvar}.conn)"
    lives = [guards.parse(f"{lookup} is {mvar}"), guards.parse(f"{mvar}.conn in self.modules"), guards.parse(f"{lookup} is not None")]
    # a local that names the looked-up entry (`registered = self.modules.get(module.conn)`, assigned once) stands for the lookup
    defs = {}
    for n in walk_local(g.func):
        if isinstance(n, ast.Assign) and len(n.targets) == 1 and isinstance(n.targets[0], ast.Name):
            defs.setdefault(n.targets[0].id, []).append(n.value)
    amap = {k: v[0] for k, v in defs.items() if len(v) == 1 and norm(v[0]) == lookup}
    for n in g.nodes:
        for e in g.succ[n.id]:
            if e.cond is None:
                continue
            cond = guards.subst(e.cond, amap) if amap else e.cond
            for lv in lives:
                try:
                    if guards.implies([(cond, e.pol)], ast.UnaryOp(op=ast.Not(), operand=lv)):
                        out.add((e.src, e.dst, e.kind))
                except AnalysisError:
                    pass
    return out


def live_follow(g, mvar: str):
    dead = not_live_edges(g, mvar)
    return (lambda e: (e.src, e.dst, e.kind) not in dead), dead


def snapshot_loop_sends(prog, ty, cg, mm, rm):
    """(function, loop, send call or None, verdict) for the manager's delivery loops: verdict is 'no-nested-removal' when
    the loop body cannot remove modules, else 'live' / 'stale' per Module.send_message in the body, according to whether
    the liveness of the addressed module is re-established in the same iteration before the send."""
    from ..program import ancestors
    out = []
    if "forward_message" not in mm.methods:
        raise AnalysisError("anchor vanished: MessageManager.forward_message")
    # every method of the manager that writes to modules from inside a loop (forward_message, send_to_loggers,
    # send_active_clients today; the logger fan-out may also be written out in send_ack)
    hosts = [f for f in mm.methods.values() if any(isinstance(n, ast.For) for n in walk_local(f.node))]
    for f in sorted(hosts, key=lambda f: f.node.lineno):
        g = C.build(f.node)
        gs = flow.guard_states(g)
        for lp in [n for n in walk_local(f.node) if isinstance(n, (ast.For,))]:
            uses = []
            for n in g.nodes:
                if n.ast is None or not any(a is lp for a in ancestors(n.ast)):
                    continue
                for c in node_calls(n):
                    if is_method_call(c, module_writers(prog)) and ty.expr(f, recv_of(c)).is_cls("Module") and not any(isinstance(a, ast.ExceptHandler) for a in ancestors(c)):
                        uses.append((n, c))
            if not uses:
                continue
            body_calls = [fi for (cnode, st, fi, d) in cg.calls.get(f.key, []) if fi is not None and any(a is lp for a in ancestors(cnode))]
            nested_removal = any(fi.key == rm.key or rm.key in cg.may_call(fi) for fi in body_calls)
            if not nested_removal:
                out.append((f, lp, None, "no-nested-removal"))
                continue
            for n, c in uses:
                mv = path_of(recv_of(c))
                goals = [guards.parse(f"{mv}.conn in self.modules"), guards.parse(f"{mv}.connected"), guards.parse(f"{mv} in self.logger_modules")]
                okl = any(not guards.any_path_implies(gs.at(n), gl) for gl in goals)
                out.append((f, lp, c, "live" if okl else "stale"))
    return out


class _Rename(ast.NodeTransformer):
    def __init__(self, a, b):
        self.a, self.b = a, b

    def visit_Name(self, n):
        return ast.copy_location(ast.Name(id=self.b, ctx=n.ctx), n) if n.id == self.a else n


def comprehension_facts(fnode: ast.FunctionDef, var: str):
    """Facts that hold of loop variable `var` for the whole loop because the collection it iterates was built by a
    comprehension filter: [(expr over var, True)].  Only sound for conditions that cannot change while the loop runs
    (identity / field comparisons) - callers must not use them for liveness."""
    import copy
    from ..dataflow import definitions
    out = []
    iters = [n.iter for n in walk_local(fnode) if isinstance(n, ast.For) and isinstance(n.target, ast.Name) and n.target.id == var]
    # `var = coll[i]` inside an index loop
    vdefs = definitions(fnode, var)
    if not iters and len(vdefs) == 1 and vdefs[0][0] == "assign" and isinstance(vdefs[0][1], ast.Subscript) and isinstance(vdefs[0][1].value, ast.Name) and not isinstance(vdefs[0][1].slice, ast.Slice):
        iters = [vdefs[0][1].value]
    for it in iters:
        if isinstance(it, ast.Name):
            defs = [r for k, r in definitions(fnode, it.id)]
            if len(defs) != 1:
                continue
            it = defs[0]
        while isinstance(it, ast.Call) and isinstance(it.func, ast.Name) and it.func.id in ("list", "tuple", "sorted", "set", "frozenset") and len(it.args) == 1:
            it = it.args[0]
        if isinstance(it, (ast.ListComp, ast.SetComp, ast.GeneratorExp)) and len(it.generators) == 1 and isinstance(it.generators[0].target, ast.Name) and isinstance(it.elt, ast.Name) and it.elt.id == it.generators[0].target.id:
            for cond in it.generators[0].ifs:
                conj = cond.values if isinstance(cond, ast.BoolOp) and isinstance(cond.op, ast.And) else [cond]
                for c in conj:
                    out.append((ast.fix_missing_locations(_Rename(it.elt.id, var).visit(copy.deepcopy(c))), True))
    return out


_writers_cache: Dict[int, Tuple[str, ...]] = {}


def module_writers(prog: Program) -> Tuple[str, ...]:
    """Names of the Module methods that write to the client socket (self.conn.send / sendall, directly or through
    another such method): read off the current source, so that a writer added next to send_message is seen as one."""
    if id(prog) in _writers_cache:
        return _writers_cache[id(prog)]
    mc = prog.cls(MGR, "Module")
    names: Set[str] = set()
    changed = True
    while changed:
        changed = False
        for nm, f in mc.methods.items():
            if nm in names:
                continue
            conn_names = {"self.conn"} | {t.id for a in walk_local(f.node) if isinstance(a, ast.Assign) and path_of(a.value) == "self.conn" for t in a.targets if isinstance(t, ast.Name)}
            for c in calls_in(f.node):
                if isinstance(c.func, ast.Attribute) and ((c.func.attr in ("send", "sendall", "sendmsg") and path_of(c.func.value) in conn_names) or (c.func.attr in names and path_of(c.func.value) == "self")):
                    names.add(nm)
                    changed = True
                    break
    if "send_message" not in names:
        raise AnalysisError("anchor vanished: Module.send_message no longer writes to self.conn")
    _writers_cache[id(prog)] = tuple(sorted(names))
    return _writers_cache[id(prog)]


def client_read_coverage(prog, cg, mm):
    """For every socket receive in MessageManager: [(function, call, handlers or None)] where handlers are the
    ConnectionError handlers that cover it - in the same function, or around every call chain leading to it (the
    handler may live in read_message itself or around its call in run()).  None = some chain is uncovered."""
    from ..program import ancestors

    def catches(h):
        if h.type is None:
            return True
        names = [norm(x).split(".")[-1] for x in (h.type.elts if isinstance(h.type, ast.Tuple) else [h.type])]
        return any(x in ("ConnectionError", "OSError", "Exception", "BaseException", "ConnectionResetError") for x in names)

    def cover(f, call, depth=0, seen=()):
        for a in ancestors(call):
            if isinstance(a, ast.Try) and any(call in calls_in(st) for st in a.body):
                hs = [h for h in a.handlers if catches(h)]
                if hs:
                    return hs
            if a is f.node:
                break
        if depth > 4 or f.key in seen:
            return None
        sites = cg.call_sites_of(f.key)
        if not sites:
            return None
        out = []
        for cf, cc in sites:
            r = cover(cf, cc, depth + 1, seen + (f.key,))
            if r is None:
                return None
            out.extend(r)
        return out

    res = []
    for f in mm.methods.values():
        for c in calls_in(f.node):
            if is_method_call(c, ("recv", "recv_into", "recvfrom")):
                res.append((f, c, cover(f, c)))
    return res


def module_constructions(prog: Program):
    """[(function, call, header_cls argument is self.header_cls)] for every Module(...) the manager creates."""
    mmod = prog.module(MGR)
    mcls = prog.cls(MGR, "Module")
    fields = [st.target.id for st in mcls.node.body if isinstance(st, ast.AnnAssign) and isinstance(st.target, ast.Name)]
    out = []
    for f in mmod.functions.values():
        for c in calls_in(f.node):
            if isinstance(c.func, ast.Name) and c.func.id == "Module":
                bound = {fields[i]: a for i, a in enumerate(c.args) if i < len(fields)}
                bound.update({k.arg: k.value for k in c.keywords if k.arg})
                hc = bound.get("header_cls")
                out.append((f, c, hc is not None and norm(hc) == "self.header_cls"))
    if len(out) < 2:
        raise AnalysisError(f"anchor vanished: expected >= 2 Module(...) constructions in manager.py, found {len(out)}")
    return out


def _risky_socket_calls(func_node):
    """(call, covered) for calls of shutdown / getpeername / getsockname / setsockopt / send / recv ... on a `.conn`-like receiver
    inside func_node; covered = lexically inside a try whose handlers catch OSError / Exception / everything"""
    from ..program import ancestors
    out = []
    RISKY = ("shutdown", "getpeername", "setsockopt", "getsockopt", "detach")
    for c in [x for x in ast.walk(func_node) if isinstance(x, ast.Call)]:
        if isinstance(c.func, ast.Attribute) and c.func.attr in RISKY and (path_of(c.func.value) or "").endswith("conn"):
            covered = False
            a = getattr(c, "_parent", None)
            prev = c
            while a is not None and not isinstance(a, (ast.FunctionDef, ast.AsyncFunctionDef)):
                if isinstance(a, ast.Try) and any(prev is b or any(prev is y for y in ast.walk(b)) for b in a.body):
                    for h in a.handlers:
                        names = [norm(x).split(".")[-1] for x in (h.type.elts if isinstance(h.type, ast.Tuple) else [h.type])] if h.type is not None else ["*"]
                        if any(nm in ("*", "OSError", "Exception", "BaseException", "IOError", "error", "EnvironmentError") for nm in names):
                            covered = True
                prev = a
                a = getattr(a, "_parent", None)
            out.append((c, covered))
    return out


def teardown_socket_calls(prog):
    """[(qualname, call, covered)] over Module.close, remove_module, disconnect_module and what they call inside manager.py;
    the detector is run on fixtures/c03_socket_teardown.py on every call and must find exactly one uncovered and one covered site"""
    import os
    from ..program import _set_parents
    fx = os.path.join(os.path.dirname(os.path.dirname(os.path.dirname(os.path.abspath(__file__)))), "fixtures", "c03_socket_teardown.py")
    try:
        t = ast.parse(open(fx, encoding="utf-8").read())
    except OSError:
        raise AnalysisError("fixture fixtures/c03_socket_teardown.py is missing")
    _set_parents(t)
    got = sorted(cov for _, cov in _risky_socket_calls(t))
    if got != [False, True]:
        raise AnalysisError(f"teardown detector no longer matches its positive example fixtures/c03_socket_teardown.py (found {got})")
    m = prog.module(MGR)
    todo = [q for q in ("Module.close", "MessageManager.remove_module", "MessageManager.disconnect_module", "MessageManager.close") if q in m.functions]
    out = []
    for q in todo:
        for c, cov in _risky_socket_calls(m.functions[q].node):
            out.append((q, c, cov))
    return out


def iterates_loggers(func_node, loop: ast.AST) -> bool:
    """the loop draws from self.logger_modules: directly, through list()/sorted()/a filter, or through a local built from it"""
    from ..dataflow import source_closure

    it = loop.iter
    if "logger_modules" in norm(it):
        return True
    try:
        return any("logger_modules" in s_ for s_ in source_closure(func_node, it))
    except Exception:
        return False
