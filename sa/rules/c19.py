"""C19 - control frames are acknowledged exactly once, in order, to their sender (DESIGN §2 C19)."""
from __future__ import annotations

import ast

from .. import callgraph, cfg as C, flow, guards
from ..program import AnalysisError, Program, norm, walk_local
from ..report import Check
from ..types import Types
from ..util import calls_in, fkey, is_method_call, node_calls, path_of, recv_of, stores_to_attr, where
from .mgr import iterates_loggers, comprehension_facts, MGR, CORE, Dispatch, const_resolver, self_call

SUB_CTRL = ["MT_SUBSCRIBE", "MT_UNSUBSCRIBE", "MT_PAUSE_SUBSCRIPTION", "MT_RESUME_SUBSCRIPTION"]
CONNECTS = ["MT_CONNECT", "MT_CONNECT_V2"]
NEVER = ["MT_DISCONNECT", "MT_CLIENT_SET_NAME", "MT_MODULE_READY", None]


def _anc(n):
    a = getattr(n, "_parent", None)
    while a is not None:
        yield a
        a = getattr(a, "_parent", None)


def module_param(prog, ty, f):
    mc = prog.cls(MGR, "Module")
    for p in f.params():
        t = ty.locals_of(f).get(p)
        if t is not None and t.kind == "cls" and t.cls is mc:
            return p
    raise AnalysisError(f"anchor vanished: no Module-typed parameter in {f.key}")


def run(prog: Program, chk: Check):
    ty = Types(prog)
    cg = callgraph.get(prog)
    chk.explanation = (
        "C19 decided on the dispatch structure of MessageManager.process_message (per message-type branch computed from the "
        "guard states of its CFG): exact number of send_ack calls on every path of each control branch, the connect guard, "
        "absence of send_ack from every other branch's call closure, the addressing stores of send_ack, who may call it, "
        "the requester/logger overlap, and the client handshake order. Not decided: interleaving with other modules' traffic "
        "(follows from C05-T single-threadedness)."
    )
    chk.assumptions += ["frames of one connection are processed one at a time in arrival order (C05-T)"]
    mm = prog.cls(MGR, "MessageManager")
    pm = prog.func(MGR, "MessageManager.process_message")
    sack = prog.func(MGR, "MessageManager.send_ack")
    d = Dispatch(prog, pm)
    g = d.g
    src = module_param(prog, ty, pm)
    is_ack = self_call("send_ack")

    missing = [t for t in SUB_CTRL + CONNECTS + NEVER[:3] if t is not None and t not in d.types]
    if missing:
        raise AnalysisError(f"anchor vanished: process_message no longer dispatches on {missing}")

    # ---- C19-D -----------------------------------------------------------------------
    D = chk.rule("C19-D", "per control type: exactly one send_ack(src) on every path; connect: iff connect_module(...) truthy; never for the rest", 10,
                 "a path with 0 or 2 acknowledgements, or an ack for a refused/other frame, contradicts 'exactly one ... never'")
    # the acknowledgement may be issued by the dispatcher or by the handler it calls (a handler of the manager that
    # acknowledges exactly once on every one of its normal paths, and its own module parameter, counts as one ack at its call site)
    _ar = {}

    def ack_range(f, depth=0):
        """(lo, hi, module argument ok) of send_ack calls over the normal paths of manager method f, handlers included"""
        if f.key in _ar:
            return _ar[f.key]
        _ar[f.key] = (0, 0, True)  # recursion guard
        fg = C.build(f.node)
        try:
            fp = module_param(prog, ty, f)
        except AnalysisError:
            fp = None
        ones, irregular, argok = set(), [], True
        for n in fg.nodes:
            for c in node_calls(n):
                if is_ack(c):
                    ones.add(n.id)
                    argok = argok and len(c.args) == 1 and fp is not None and path_of(c.args[0]) == fp
                elif depth < 3 and isinstance(c.func, ast.Attribute) and path_of(c.func.value) == "self" and c.func.attr in mm.methods and c.func.attr not in ("send_ack", f.name):
                    h = mm.methods[c.func.attr]
                    if sack.key in cg.may_call(h) or any(is_ack(x) for x in calls_in(h.node)):
                        lo_, hi_, ok_ = ack_range(h, depth + 1)
                        hp = None
                        try:
                            hp = module_param(prog, ty, h)
                        except AnalysisError:
                            pass
                        b_ = callgraph.bind_args(h, c, bound_method=True)
                        passes = hp is not None and fp is not None and path_of(b_.get(hp)) == fp
                        if (lo_, hi_) == (1, 1):
                            ones.add(n.id)
                            argok = argok and ok_ and passes
                        elif (lo_, hi_) != (0, 0):
                            irregular.append((h.name, lo_, hi_))
        lo, hi = flow.count_on_paths(fg, ones, [fg.entry.id], [fg.exit.id], follow=lambda e: e.kind not in ("exc", "except"))
        if irregular:
            lo, hi = min(lo, 0), max(hi, 2) if any(h_ > 1 for _, _, h_ in irregular) else max(hi, 1)
            lo = 0 if any(l_ == 0 for _, l_, _ in irregular) else lo
        _ar[f.key] = (lo, hi, argok)
        return _ar[f.key]

    def ack_nodes_pm():
        out, irr, argbad = set(), [], []
        for n in g.nodes:
            for c in node_calls(n):
                if is_ack(c):
                    out.add(n.id)
                elif isinstance(c.func, ast.Attribute) and path_of(c.func.value) == "self" and c.func.attr in mm.methods and c.func.attr != "send_ack":
                    h = mm.methods[c.func.attr]
                    if any(is_ack(x) for x in calls_in(h.node)) or sack.key in cg.may_call(h):
                        lo_, hi_, ok_ = ack_range(h, 1)
                        if (lo_, hi_) == (1, 1):
                            out.add(n.id)
                            hp = None
                            try:
                                hp = module_param(prog, ty, h)
                            except AnalysisError:
                                pass
                            b_ = callgraph.bind_args(h, c, bound_method=True)
                            if not ok_ or hp is None or path_of(b_.get(hp)) != src:
                                argbad.append((n.id, norm(c)))
                        elif (lo_, hi_) != (0, 0):
                            irr.append((n.id, h.name, lo_, hi_))
        return out, irr, argbad

    ackset, irregular_h, argbad_h = ack_nodes_pm()
    for t in SUB_CTRL:
        fol = d.follow_under(t)
        under = d.nodes_under(t)
        lo, hi = flow.count_on_paths(g, lambda n: n.id in ackset, [g.entry.id], [g.exit.id], follow=fol)
        irr_t = [x for x in irregular_h if x[0] in under]
        D.decide((lo, hi) == (1, 1) and not irr_t, fkey(pm, f"{t}:ack-count"), where(pm), f"{t}: exactly one send_ack on every path",
                 f"{t}: number of send_ack calls on a path through the branch ranges over [{lo}, {hi}], expected exactly 1"
                 + ("; handler " + ", ".join(f"{h}() acknowledges between {a} and {b} times depending on its path" for _, h, a, b in irr_t) if irr_t else ""))
        for n in d.call_nodes(is_ack, under=t):
            for c in node_calls(n):
                if is_ack(c):
                    okarg = len(c.args) == 1 and path_of(c.args[0]) == src
                    D.decide(okarg, fkey(pm, f"{t}:ack-arg"), where(pm, c), "acknowledges the source module",
                             f"{t}: send_ack called with {norm(c)} instead of the source module `{src}`")
        for nid, txt in argbad_h:
            if nid in under:
                D.bad(fkey(pm, f"{t}:ack-arg"), where(pm), f"{t}: the handler call `{txt}` does not acknowledge the source module `{src}`")
        if not d.call_nodes(is_ack, under=t) and not any(nid in under for nid, _ in argbad_h) and any(n_ in under for n_ in ackset):
            D.ok(fkey(pm, f"{t}:ack-arg"), where(pm), "the handler acknowledges the module it is handed, the source module")
    for t in CONNECTS:
        ids = d.nodes_under(t)
        fol = d.follow_under(t)
        acks = d.call_nodes(is_ack, under=t)
        # the decision point: a test on the call's result, spelt `if connect(...)`, `if not connect(...): return`, or through a
        # local (`ok = connect(...); if ok:`) - the accepted / refused continuations are told apart by what each edge implies
        ccalls = [c for n in g.nodes if n.id in ids for c in node_calls(n) if self_call("connect_module")(c)]
        atoms = {norm(c) for c in ccalls}
        for n in g.nodes:
            if n.id in ids and n.kind == "stmt" and isinstance(n.ast, ast.Assign) and len(n.ast.targets) == 1 and isinstance(n.ast.targets[0], ast.Name) and isinstance(n.ast.value, ast.Call) and self_call("connect_module")(n.ast.value):
                atoms.add(n.ast.targets[0].id)
        tests = [n for n in g.nodes if n.id in ids and n.kind == "test" and (any(self_call("connect_module")(c) for c in calls_in(n.ast)) or any(isinstance(x, ast.Name) and x.id in atoms for x in ast.walk(n.ast)))]
        if len(tests) != 1 or len(ccalls) != 1:
            D.bad(fkey(pm, f"{t}:connect-guard"), where(pm), f"{t}: expected one test on connect_module(...), found {len(tests)}")
            continue
        tn = tests[0]
        atom = next(a for a in atoms if any(norm(x) == a for x in ast.walk(tn.ast)))
        acc = lambda e: e.cond is not None and guards.implies([(e.cond, e.pol)], guards.parse(atom))
        ref = lambda e: e.cond is not None and guards.implies([(e.cond, e.pol)], guards.parse(f"not ({atom})"))
        true_dst = [e.dst for e in g.succ[tn.id] if e.kind != "exc" and acc(e)]
        false_dst = [e.dst for e in g.succ[tn.id] if e.kind != "exc" and ref(e)]
        plain = bool(true_dst) and bool(false_dst)  # the test decides on nothing but the result
        D.decide(plain, fkey(pm, f"{t}:guard-is-result"), where(pm, tn.ast), "the branch is decided by the result of connect_module",
                 f"{t}: connect guard is `{norm(tn.ast)}`, which does not split into result-truthy / result-falsy continuations")
        ackp = lambda n: any(is_ack(c) for c in node_calls(n))
        lo, hi = flow.count_on_paths(g, ackp, true_dst, [g.exit.id], follow=fol) if true_dst else (-1, -1)
        D.decide((lo, hi) == (1, 1), fkey(pm, f"{t}:accepted-ack-count"), where(pm), f"{t}: accepted handshake acknowledged exactly once",
                 f"{t}: after connect_module(...) is truthy the number of send_ack calls ranges over [{lo}, {hi}]")
        lo2, hi2 = flow.count_on_paths(g, ackp, false_dst, [g.exit.id], follow=fol) if false_dst else (0, 0)
        D.decide(hi2 in (0, -1), fkey(pm, f"{t}:refused-no-ack"), where(pm), f"{t}: refused request is not acknowledged",
                 f"{t}: a refused connection request can be acknowledged")
        # no ack before the connect test
        pre = flow.must_precede(g, [tn], acks, follow=fol)
        D.decide(not pre, fkey(pm, f"{t}:ack-after-guard"), where(pm), "no acknowledgement before the connect decision",
                 f"{t}: send_ack reachable without passing the connect_module test")
    sack_keys = {sack.key, prog.func(MGR, "Module.send_ack").key}
    for t in NEVER:
        ids = d.nodes_under(t)
        label = t or "<other types>"
        direct = d.call_nodes(is_ack, under=t)
        closure_hit = []
        for n in g.nodes:
            if n.id not in ids:
                continue
            for c in node_calls(n):
                st, fi, desc = ty.callee(pm, c)
                if fi is not None and (fi.key in sack_keys or cg.may_call(fi) & sack_keys):
                    closure_hit.append(norm(c))
        D.decide(not direct and not closure_hit, fkey(pm, f"{label}:never-ack"), where(pm), f"{label}: send_ack not in the branch's call closure",
                 f"{label}: an acknowledgement can be produced ({'; '.join(closure_hit) or 'direct call'})")

    # connect_module: a module that is already connected is refused before any effect
    cm_f = prog.func(MGR, "MessageManager.connect_module")
    cg_ = C.build(cm_f.node)
    gs = flow.guard_states(cg_)
    mparam = module_param(prog, ty, cm_f)
    tests = {n.id for n in cg_.nodes if n.kind == "test" and norm(n.ast) == f"{mparam}.connected"}
    r = flow.reach(cg_, [cg_.entry.id], follow=lambda e: not (e.src in tests and e.kind == "false"))

    def is_effect(n):
        if n.kind in ("for", "with"):
            return True
        if n.kind != "stmt" or isinstance(n.ast, (ast.Return, ast.Pass)):
            return False
        if isinstance(n.ast, ast.Expr) and not node_calls(n):
            return False  # docstring
        return True

    bad = [n for n in cg_.nodes if n.id in r and is_effect(n)] if tests else [cg_.entry]
    D.decide(not bad, fkey(cm_f, "already-connected-noop"), where(cm_f), "every effect of connect_module is dominated by `not module.connected`",
             "connect_module has an effect reachable for an already connected module: " + "; ".join(norm(n.ast)[:60] for n in bad[:3]))
    first_ret = [n for n in cg_.nodes if n.kind == "stmt" and isinstance(n.ast, ast.Return)
                 and any(all((norm(e) == f"{mparam}.connected" and pol) for e, pol in p) and p for p in gs.at(n))]
    D.decide(bool(first_ret) and all(isinstance(n.ast.value, ast.Constant) and not n.ast.value.value for n in first_ret),
             fkey(cm_f, "already-connected-returns-false"), where(cm_f), "returns a falsy constant for an already connected module",
             "connect_module does not return False for an already connected module")

    # ---- C19-P / C19-O who may call send_ack ---------------------------------------------
    O = chk.rule("C19-O", "MessageManager.send_ack is called only from process_message (never from handlers with early returns)", 1,
                 "an ack inside a handler is skipped by its early returns or doubled with the dispatcher's")
    for cf, cc in cg.call_sites_of(sack.key):
        okc = cf.key == pm.key
        if not okc and cf.cls is mm:
            lo_, hi_, ok_ = ack_range(cf)
            okc = (lo_, hi_) == (1, 1) and ok_  # a handler none of whose paths skips or repeats the acknowledgement
        O.decide(okc, fkey(cf, cc), where(cf, cc), "called from the dispatcher (or a handler that acknowledges exactly once on every path)", f"send_ack called from {cf.qual}")
    msack = prog.func(MGR, "Module.send_ack")
    for cf, cc in cg.call_sites_of(msack.key):
        O.bad(fkey(cf, cc), where(cf, cc), f"Module.send_ack (second acknowledgement path) called from {cf.qual}")

    # ---- C19-A addressing -------------------------------------------------------------------
    A = chk.rule("C19-A", "send_ack builds MT_ACKNOWLEDGE from the manager to src_module, 0 payload bytes; direct send then logger copy on every path", 7,
                 "wrong type/destination/length or a skipped logger copy contradicts the statement")
    ag = C.build(sack.node)
    sp = module_param(prog, ty, sack)
    res = const_resolver(prog, sack.module)
    consts = prog.module_constants(CORE)
    direct_nodes = [n for n in ag.nodes for c in node_calls(n) if is_method_call(c, "send_message") and path_of(recv_of(c)) == sp]
    if len(direct_nodes) != 1:
        A.bad(fkey(sack, "direct-send"), where(sack), f"expected one direct `{sp}.send_message(...)`, found {len(direct_nodes)}")
    else:
        dn = direct_nodes[0]
        dc = [c for c in node_calls(dn) if is_method_call(c, "send_message")][0]
        hname = path_of(dc.args[0]) if dc.args else None
        pay = guards.subst(dc.args[1], guards.copy_map(sack.node)) if len(dc.args) == 2 else None  # `no_data = b""` counts
        A.decide(pay is not None and isinstance(pay, ast.Constant) and pay.value == b"", fkey(sack, "direct-send-empty-payload"),
                 where(sack, dc), "direct send carries an empty payload", f"direct acknowledgement payload is {norm(dc)}")
        want = {
            "msg_type": lambda v: res(v) == consts.get("MT_ACKNOWLEDGE"),
            "src_mod_id": lambda v: res(v) == consts.get("MID_MESSAGE_MANAGER"),
            "dest_mod_id": lambda v: norm(v) == f"{sp}.mod_id",
            "num_data_bytes": lambda v: isinstance(v, ast.Constant) and v.value == 0,
        }
        for fld, okv in want.items():
            st = [n for n in ag.nodes for t in stores_to_attr(n, fld) if path_of(t.value) == hname]
            good = bool(st) and all(isinstance(n.ast, ast.Assign) and okv(n.ast.value) for n in st)
            dom = not flow.must_precede(ag, st, [dn]) if st else False
            A.decide(good and dom, fkey(sack, f"header.{fld}"), where(sack), f"header.{fld} set correctly before the send",
                     f"acknowledgement header field {fld}: " + ("; ".join(norm(n.ast) for n in st) if st else "never set") + ("" if dom else " (does not dominate the send)"))
        esc = flow.must_follow(ag, [ag.entry], [dn], exits=("exit",))
        A.decide(not esc, fkey(sack, "direct-send-every-path"), where(sack), "direct send on every path", "a path returns without the direct send")
        lg = [n for n in ag.nodes for c in node_calls(n) if self_call("send_to_loggers")(c)]
        # ... or the fan-out written in place: a loop over (a snapshot of) self.logger_modules that sends to each logger
        lg_loops = [n for n in ag.nodes if n.kind == "for" and iterates_loggers(sack.node, n.ast)
                    and any(is_method_call(cc, "send_message") and path_of(recv_of(cc)) == path_of(n.ast.target) for cc in calls_in(n.ast))]
        okl = bool(lg or lg_loops) and not flow.must_follow(ag, [ag.entry], lg + lg_loops, exits=("exit",))
        A.decide(okl, fkey(sack, "logger-copy-every-path"), where(sack), "logger copy on every normal path, including after a failed direct send",
                 "a normal path (e.g. the failure handler) skips send_to_loggers")
        for n in lg:
            for c in node_calls(n):
                if self_call("send_to_loggers")(c):
                    A.decide(bool(c.args) and path_of(c.args[0]) == hname, fkey(sack, "logger-copy-same-header"), where(sack, c),
                             "logger copy carries the same header", f"logger copy sends {norm(c)}")
        for n in lg_loops:
            for cc in calls_in(n.ast):
                if is_method_call(cc, "send_message") and path_of(recv_of(cc)) == path_of(n.ast.target):
                    A.decide(bool(cc.args) and path_of(cc.args[0]) == hname, fkey(sack, "logger-copy-same-header"), where(sack, cc),
                             "logger copy carries the same header", f"logger copy sends {norm(cc)}")

        # ---- C19-X exactly one on the requester's own connection --------------------------------
        X = chk.rule("C19-X", "a requester that is itself a logger must not get both the direct ack and the logger copy", 1,
                     "otherwise a logger module receives two ACKNOWLEDGE frames per control frame")
        gsa = flow.guard_states(ag)
        excl_goal = guards.parse(f"not {sp}.is_logger")
        direct_guarded = not guards.any_path_implies(gsa.at(dn), excl_goal)
        copy_excludes = False
        stl = mm.methods.get("send_to_loggers")
        if stl is None and not lg_loops:
            raise AnalysisError("anchor vanished: MessageManager.send_to_loggers (and no logger fan-out loop in send_ack)")
        for n in lg_loops:
            # in-place fan-out: the send inside the loop is guarded by `module is not <requester>`
            rv = path_of(n.ast.target)
            okall = True
            nsend = 0
            for m in ag.nodes:
                if m.ast is None or not any(a is n.ast for a in _anc(m.ast)):
                    continue
                for cc in node_calls(m):
                    if is_method_call(cc, "send_message") and path_of(recv_of(cc)) == rv:
                        nsend += 1
                        pth = [list(p_) for p_ in gsa.at(m)]
                        if guards.any_path_implies(pth, guards.parse(f"{rv} is not {sp}")) and guards.any_path_implies(pth, guards.parse(f"{rv} != {sp}")):
                            okall = False
            copy_excludes = copy_excludes or (okall and nsend > 0)
        for n in (lg if stl is not None else []):
            for c in node_calls(n):
                if self_call("send_to_loggers")(c):
                    b = callgraph.bind_args(stl, c, bound_method=True)
                    for pname, actual in b.items():
                        if path_of(actual) == sp:
                            # the loop send in send_to_loggers must be guarded by module is not / != that parameter
                            sg = C.build(stl.node)
                            sgs = flow.guard_states(sg)
                            sends = [m for m in sg.nodes for cc in node_calls(m) if is_method_call(cc, "send_message")]
                            okall = bool(sends)
                            for m in sends:
                                rc = [cc for cc in node_calls(m) if is_method_call(cc, "send_message")][0]
                                rv = path_of(recv_of(rc))
                                g1 = guards.parse(f"{rv} is not {pname}")
                                g2 = guards.parse(f"{rv} != {pname}")
                                extra = comprehension_facts(stl.node, rv) if rv else []
                                pth = [list(p_) + extra for p_ in sgs.at(m)]
                                if guards.any_path_implies(pth, g1) and guards.any_path_implies(pth, g2):
                                    okall = False
                            copy_excludes = copy_excludes or okall
            # or the logger copy is guarded by the requester not being a logger ... (not sufficient: other loggers need it)
        X.decide(direct_guarded or copy_excludes, fkey(sack, "requester-is-logger"), where(sack),
                 "requester excluded from one of the two deliveries",
                 f"`{sp}.send_message(header, b'')` and send_to_loggers both reach a requester that is in logger_modules: two ACKNOWLEDGE frames")

    # ---- C19-C client side handshake -------------------------------------------------------------
    Cc = chk.rule("C19-C", "client sends CONNECT_V2 then CONNECT, then waits for one ACKNOWLEDGE; the wait returns only ACK frames", 3,
                  "the manager acknowledges the pair once; a different order or wait breaks the handshake accounting")
    ch = prog.func("pyrtma.client", "Client._connect_helper")
    hg = C.build(ch.node)
    env = ty.locals_of(ch)

    def send_of(clsname):
        out = []
        for n in hg.nodes:
            for c in node_calls(n):
                if self_call("send_message")(c) and c.args:
                    t = ty.expr(ch, c.args[0])
                    if t.kind == "cls" and t.cls.name == clsname:
                        out.append(n)
        return out

    v2, v1 = send_of("MDF_CONNECT_V2"), send_of("MDF_CONNECT")
    waits = [n for n in hg.nodes for c in node_calls(n) if self_call("_wait_for_acknowledgement")(c)]
    Cc.decide(len(v2) == 1 and len(v1) == 1 and not flow.must_precede(hg, v2, v1), fkey(ch, "v2-before-v1"), where(ch),
              "CONNECT_V2 is sent before CONNECT", "CONNECT_V2 / CONNECT are not each sent once in that order")
    Cc.decide(len(waits) == 1 and not flow.must_precede(hg, v1, waits) and not flow.must_precede(hg, v2, waits), fkey(ch, "one-wait-after-both"), where(ch),
              "exactly one wait, after both frames", "the handshake does not wait exactly once after both frames")
    wf = prog.func("pyrtma.client", "Client._wait_for_acknowledgement")
    wg = C.build(wf.node)
    wgs = flow.guard_states(wg)
    resw = const_resolver(prog, wf.module)
    ackv = prog.module_constants(CORE).get("MT_ACKNOWLEDGE")
    rets = [n for n in wg.nodes if n.kind == "stmt" and isinstance(n.ast, ast.Return) and n.ast.value is not None]
    okr = bool(rets)
    for n in rets:
        v = path_of(n.ast.value)
        goal = guards.parse(f"{v}.header.msg_type == {ackv}")
        paths = [[(guards.fold_consts(e, resw), pol) for e, pol in p] for p in wgs.at(n)]
        if guards.any_path_implies(paths, goal):
            okr = False
    Cc.decide(okr, fkey(wf, "returns-only-ack"), where(wf), "every return is dominated by `msg.header.msg_type == MT_ACKNOWLEDGE`",
              "_wait_for_acknowledgement can return a frame that is not an ACKNOWLEDGE")
    chk.units.update({"dispatch_types": sorted(d.types), "dispatch_subject": d.subject})

    # ---- C19-F a fan-out serves every recipient -------------------------------------------------------------------------------------------------
    # `all(send(m) for m in loggers)` / `any(...)` stops at the first element that decides the result: a copy that could not be
    # written to one logger ends the fan-out for the loggers after it.  A delivery written as a generator inside a
    # short-circuiting builtin (or as operands of `and` / `or`) is therefore refused; a list comprehension or a loop is not.
    Fo = chk.rule("C19-F", "no delivery of the manager is driven by a short-circuiting combinator (all / any over a generator that sends)", 1,
                  "the copies of an acknowledgement (and every other fan-out) stop at the first recipient whose write fails")
    writer_keys = {f_.key for f_ in prog.cls(MGR, "Module").methods.values() if f_.name in ("send_message", "send_ack")}
    nshort = 0
    for f_ in mm.methods.values():
        for c_ in calls_in(f_.node):
            if isinstance(c_.func, ast.Name) and c_.func.id in ("all", "any") and len(c_.args) == 1 and isinstance(c_.args[0], ast.GeneratorExp):
                sends = False
                for x_ in ast.walk(c_.args[0].elt):
                    if isinstance(x_, ast.Call):
                        st_, fi_, _d = ty.callee(f_, x_)
                        if (fi_ is not None and (fi_.key in writer_keys or cg.may_call(fi_) & writer_keys)) or is_method_call(x_, ("send_message", "send_ack", "sendall")):
                            sends = True
                if sends:
                    nshort += 1
                    Fo.bad(fkey(f_, c_), where(f_, c_), f"{f_.qual}: `{norm(c_)[:90]}` delivers inside {c_.func.id}(): the generator is abandoned at the first "
                           f"{'false' if c_.func.id == 'all' else 'true'} result, the recipients after it are never served")
    if not nshort:
        Fo.ok(f"{MGR}::MessageManager|no-short-circuit-fan-out", prog.module(MGR).rel, "no all()/any() over a sending generator in MessageManager")

    # ---- C19-R the request is read whole, the copies go to every logger ------------------------------------------------------------------
    Rq = chk.rule("C19-R", "read_message receives header and payload with MSG_WAITALL; logger_modules registers the module itself", 3,
                  "a control frame whose payload arrives in two TCP segments is taken for a dead peer (no acknowledgement, no logger copy); a logger table keyed by a client-chosen id drops the copy for one of two loggers that share it")
    rdm = prog.func(MGR, "MessageManager.read_message")
    recvs = [c for c in calls_in(rdm.node) if is_method_call(c, ("recv_into", "recv"))]
    if len(recvs) < 2:
        raise AnalysisError(f"anchor vanished: header and payload receives in read_message (found {len(recvs)})")
    for c in recvs:
        flags = [norm(a) for a in c.args[1:]] + [norm(k.value) for k in c.keywords]
        Rq.decide(any("MSG_WAITALL" in t for t in flags), fkey(rdm, f"waitall:{norm(c)[:50]}"), where(rdm, c), "the receive waits for the whole part (MSG_WAITALL)",
                  f"read_message: `{norm(c)[:70]}` can return short when the bytes arrive in pieces; the short count is then treated as a dead peer: the request is never acknowledged")
    regs = [n for f_ in mm.methods.values() for n in walk_local(f_.node)
            if (isinstance(n, ast.Call) and isinstance(n.func, ast.Attribute) and path_of(n.func.value) == "self.logger_modules" and n.func.attr in ("add", "append", "setdefault", "update"))
            or (isinstance(n, ast.Assign) and any(isinstance(t, ast.Subscript) and path_of(t.value) == "self.logger_modules" for t in n.targets))]
    if not regs:
        raise AnalysisError("anchor vanished: registration into self.logger_modules")
    for n in regs:
        by_identity = isinstance(n, ast.Call) and n.func.attr in ("add", "append") and len(n.args) == 1 and isinstance(n.args[0], ast.Name)
        if isinstance(n, ast.Assign):
            key = next(t.slice for t in n.targets if isinstance(t, ast.Subscript) and path_of(t.value) == "self.logger_modules")
            by_identity = isinstance(key, ast.Name) or norm(key).endswith(".conn")
        Rq.decide(by_identity, f"{MGR}|logger-registration:{norm(n)[:50]}", f"{prog.module(MGR).rel}:{n.lineno}", "loggers are registered by identity (the module / its connection)",
                  f"`{norm(n)[:70]}` keys the logger table by a value the client chooses: two loggers sharing it (allow_multiple) overwrite each other and one stops receiving acknowledgement copies")
