"""Artefact reader: shipped YAML definition files (as data, via ruamel.yaml which is a
dependency of the repository, not repository code) and shipped generated Python modules (as AST).
Includes an independent constant-expression evaluator and natural-layout calculator; the native
type widths are read from parser.supported_types by AST, not from a private copy."""
from __future__ import annotations

import ast
import hashlib
import os
import re
from typing import Any, Dict, List, Optional, Tuple

from .program import AnalysisError, Program, norm

PAR = "pyrtma.parser"


def _yaml_load(path: str):
    try:
        from ruamel.yaml import YAML
    except Exception as e:  # pragma: no cover
        raise AnalysisError(f"ruamel.yaml is not available ({e}); the YAML-reading rules cannot run")
    try:
        with open(path, "rt") as f:
            return YAML(typ="safe", pure=True).load(f.read()) or {}
    except OSError as e:
        raise AnalysisError(f"cannot read {path}: {e}")


def native_types(prog: Program) -> Dict[str, Tuple[int, str]]:
    """name -> (size, struct format char) from the dict literal parser.supported_types."""
    m = prog.module(PAR)
    d = m.assigns.get("supported_types")
    if not isinstance(d, ast.Dict):
        raise AnalysisError("anchor vanished: parser.supported_types dict literal")
    out = {}
    for k, v in zip(d.keys, d.values):
        if isinstance(k, ast.Constant) and isinstance(v, ast.Call):
            kw = {x.arg: x.value for x in v.keywords}
            if "size" in kw and isinstance(kw["size"], ast.Constant):
                out[k.value] = (kw["size"].value, kw["format"].value if isinstance(kw.get("format"), ast.Constant) else "")
    if len(out) < 20:
        raise AnalysisError("anchor vanished: parser.supported_types has too few entries")
    return out


def dict_literal(prog: Program, module: str, name: str) -> Dict[str, Any]:
    """Module-level dict literal name -> {key: value text | constant}."""
    m = prog.module(module)
    d = m.assigns.get(name)
    if not isinstance(d, ast.Dict):
        raise AnalysisError(f"anchor vanished: {module}.{name} dict literal")
    out = {}
    for k, v in zip(d.keys, d.values):
        if isinstance(k, ast.Constant):
            out[k.value] = v.value if isinstance(v, ast.Constant) else norm(v)
    return out


# ---------------------------------------------------------------------------------------------
class Closure:
    """The definition closure of a root YAML file, read as data in parse order."""

    def __init__(self, prog: Program, root_yaml: str, with_core: Optional[bool] = None):
        self.prog = prog
        self.natives = native_types(prog)
        self.files: List[str] = []
        self.constants: Dict[str, Any] = {}
        self.const_expr: Dict[str, Any] = {}
        self.string_constants: Dict[str, str] = {}
        self.aliases: Dict[str, str] = {}
        self.host_ids: Dict[str, int] = {}
        self.module_ids: Dict[str, int] = {}
        self.structs: Dict[str, dict] = {}
        self.messages: Dict[str, dict] = {}
        self.source: Dict[str, str] = {}
        root_yaml = os.path.realpath(root_yaml)
        data = _yaml_load(root_yaml)
        opt = (data.get("compiler_options") or {})
        imp = opt.get("IMPORT_COREDEFS", True)
        if with_core is None:
            with_core = bool(imp)
        if with_core:
            core = os.path.join(prog.root, "src", "pyrtma", "core_defs", "core_defs.yaml")
            self._file(os.path.realpath(core))
        self._file(root_yaml)

    def _file(self, path: str):
        if path in self.files:
            return
        self.files.append(path)
        data = _yaml_load(path)
        base = os.path.dirname(path)
        for imp in data.get("imports") or []:
            self._file(os.path.realpath(os.path.join(base, imp)))
        rel = os.path.basename(path)
        for k, v in (data.get("constants") or {}).items():
            self.const_expr[k] = v
            self.constants[k] = self.eval_expr(v)
            self.source[k] = rel
        for k, v in (data.get("string_constants") or {}).items():
            self.string_constants[k] = v
        for k, v in (data.get("aliases") or {}).items():
            self.aliases[k] = v
        for k, v in (data.get("host_ids") or {}).items():
            self.host_ids[k] = v
        for k, v in (data.get("module_ids") or {}).items():
            self.module_ids[k] = v
        for k, v in (data.get("struct_defs") or {}).items():
            self.structs[k] = v
            self.source[k] = rel
        for k, v in (data.get("message_defs") or {}).items():
            if k == "_RESERVED_":
                continue
            self.messages[k] = v
            self.source["MDF_" + k] = rel

    # -- independent constant evaluator -------------------------------------------------------------
    def eval_expr(self, e, depth=0):
        if isinstance(e, (int, float)) and not isinstance(e, bool):
            return e
        if not isinstance(e, str):
            raise AnalysisError(f"constant expression of unsupported kind: {e!r}")
        try:
            tree = ast.parse(e.strip(), mode="eval").body
        except SyntaxError:
            raise AnalysisError(f"cannot parse constant expression {e!r}")
        return self._ev(tree, depth)

    def _ev(self, n, depth):
        if depth > 30:
            raise AnalysisError("constant expression too deep")
        if isinstance(n, ast.Constant) and isinstance(n.value, (int, float)) and not isinstance(n.value, bool):
            return n.value
        if isinstance(n, ast.Name):
            if n.id in self.constants:
                return self.constants[n.id]
            raise AnalysisError(f"constant {n.id} used before definition")
        if isinstance(n, ast.UnaryOp) and isinstance(n.op, (ast.USub, ast.UAdd)):
            v = self._ev(n.operand, depth + 1)
            return -v if isinstance(n.op, ast.USub) else v
        if isinstance(n, ast.BinOp):
            l, r = self._ev(n.left, depth + 1), self._ev(n.right, depth + 1)
            ops = {ast.Add: lambda a, b: a + b, ast.Sub: lambda a, b: a - b, ast.Mult: lambda a, b: a * b, ast.Div: lambda a, b: a / b,
                   ast.FloorDiv: lambda a, b: a // b, ast.Mod: lambda a, b: a % b, ast.Pow: lambda a, b: a ** b,
                   ast.LShift: lambda a, b: a << b, ast.RShift: lambda a, b: a >> b, ast.BitOr: lambda a, b: a | b, ast.BitAnd: lambda a, b: a & b}
            f = ops.get(type(n.op))
            if f is None:
                raise AnalysisError(f"unsupported operator in constant expression: {type(n.op).__name__}")
            return f(l, r)
        raise AnalysisError(f"unsupported construct in constant expression: {ast.dump(n)[:60]}")

    # -- type resolution / layout -------------------------------------------------------------------------
    FIELD_RE = re.compile(r"\s*(?P<ftype>[\s\w]*)(\[(?P<len>.*)\])?")

    def split_field(self, text: str) -> Tuple[str, Optional[int]]:
        m = self.FIELD_RE.match(text)
        ftype = m.group("ftype").strip()
        ln = (m.group("len") or "").strip()
        return ftype, (int(self.eval_expr(ln)) if ln else None)

    def resolve(self, tname: str, depth=0):
        """-> ('native', name) | ('struct', name) | ('message', name)"""
        if depth > 12:
            raise AnalysisError(f"alias chain too deep at {tname}")
        if tname in self.natives:
            return ("native", tname)
        if tname in self.aliases:
            return self.resolve(self.aliases[tname], depth + 1)
        if tname in self.structs:
            return ("struct", tname)
        if tname in self.messages:
            return ("message", tname)
        raise AnalysisError(f"unknown type {tname!r} in shipped definitions")

    def fields_of(self, kind: str, name: str) -> List[Tuple[str, str]]:
        d = self.structs[name] if kind == "struct" else self.messages[name]
        f = d.get("fields")
        if f is None:
            return []
        if isinstance(f, str):
            k = "struct" if f in self.structs else "message"
            return self.fields_of(k, f)
        return [(a, b) for a, b in f.items()]

    def layout(self, kind: str, name: str, depth=0) -> dict:
        """Natural C layout: {'size', 'align', 'fields': [(name, offset, size, align, padding_before)], 'tail_pad'}"""
        if depth > 12:
            raise AnalysisError("struct nesting too deep")
        ptr = 0
        maxal = 1
        out = []
        for fname, ftext in self.fields_of(kind, name):
            tname, ln = self.split_field(ftext)
            k, base = self.resolve(tname)
            if k == "native":
                size = al = self.natives[base][0]
            else:
                sub = self.layout(k, base, depth + 1)
                size, al = sub["size"], sub["align"]
            pad = (-ptr) % al
            ptr += pad
            out.append((fname, ptr, size * (ln or 1), al, pad))
            ptr += size * (ln or 1)
            maxal = max(maxal, al)
        tail = (-ptr) % maxal
        return {"size": ptr + tail, "align": maxal, "fields": out, "tail_pad": tail}

    def canonical_text(self, kind: str, name: str) -> str:
        d = self.structs[name] if kind == "struct" else self.messages[name]
        f = d.get("fields")
        if kind == "message" and f is None:
            return f"{name}:\n  id: {d['id']}\n  fields: null"
        if isinstance(f, str):
            body = f"    fields: {f}"
        else:
            body = "\n".join(f"    {a}: {b}" for a, b in f.items())
        if kind == "message":
            return f"{name}:\n  id: {d['id']}\n  fields:\n{body}"
        return f"{name}:\n  fields:\n{body}"


# ---------------------------------------------------------------------------------------------
DESC_NATIVE = {"Int8": ("int", 1, True), "Int16": ("int", 2, True), "Int32": ("int", 4, True), "Int64": ("int", 8, True),
               "Uint8": ("int", 1, False), "Uint16": ("int", 2, False), "Uint32": ("int", 4, False), "Uint64": ("int", 8, False),
               "Float": ("float", 4, True), "Double": ("float", 8, True), "Char": ("char", 1, True), "Byte": ("byte", 1, False)}


class GeneratedModule:
    """A generated Python definitions module read as AST."""

    def __init__(self, path: str):
        try:
            src = open(path).read()
            self.tree = ast.parse(src, filename=path)
        except (OSError, SyntaxError) as e:
            raise AnalysisError(f"cannot read generated module {path}: {e}")
        self.path = path
        self.consts: Dict[str, Any] = {}
        self.classes: Dict[str, dict] = {}
        self.aliases: Dict[str, str] = {}
        for st in self.tree.body:
            if isinstance(st, ast.AnnAssign) and isinstance(st.target, ast.Name) and st.value is not None:
                v = self._const(st.value)
                if v is not None:
                    self.consts[st.target.id] = v
            elif isinstance(st, ast.Assign) and len(st.targets) == 1 and isinstance(st.targets[0], ast.Name):
                self.aliases[st.targets[0].id] = norm(st.value)
            elif isinstance(st, ast.ClassDef):
                self.classes[st.name] = self._cls(st)

    @staticmethod
    def _const(v):
        if isinstance(v, ast.Constant):
            return v.value
        if isinstance(v, ast.UnaryOp) and isinstance(v.op, ast.USub) and isinstance(v.operand, ast.Constant):
            return -v.operand.value
        return None

    def _cls(self, c: ast.ClassDef) -> dict:
        info = {"line": c.lineno, "meta": {}, "fields": [], "bases": [norm(b) for b in c.bases]}
        for st in c.body:
            if isinstance(st, ast.AnnAssign) and isinstance(st.target, ast.Name) and st.value is not None:
                nm = st.target.id
                if nm.startswith("type_"):
                    info["meta"][nm] = self._const(st.value)
                elif isinstance(st.value, ast.Call):
                    fn = norm(st.value.func)
                    args = [self._const(a) if self._const(a) is not None else norm(a) for a in st.value.args]
                    info["fields"].append((nm, fn, args))
        return info


def descriptor_shape(fn: str, args: list):
    """-> (kind, elem, length): kind in native/struct; elem = descriptor class or struct class name; length None = scalar"""
    if fn in DESC_NATIVE:
        return ("native", fn, None)
    if fn in ("IntArray", "FloatArray") and len(args) == 2:
        return ("native", args[0], args[1])
    if fn == "String" and len(args) == 1:
        return ("native", "Char", args[0])
    if fn == "ByteArray" and len(args) == 1:
        return ("native", "Byte", args[0])
    if fn == "Struct" and len(args) == 1:
        return ("struct", args[0], None)
    if fn == "StructArray" and len(args) == 2:
        return ("struct", args[0], args[1])
    return ("unknown", fn, None)


SHIPPED_PAIRS = [
    ("src/pyrtma/core_defs/core_defs.yaml", "src/pyrtma/core_defs.py", "core"),
    ("tests/test_msg_defs/test_defs.yaml", "tests/test_msg_defs/test_defs.py", "tests"),
    ("examples/msg_defs/example_messages.yaml", "examples/msg_defs/example_messages.py", "examples"),
]


def compare_pair(prog: Program, yaml_rel: str, py_rel: str):
    """Yield (rule-suffix, key, where, ok, detail) comparing one YAML closure with its generated module."""
    ypath, ppath = os.path.join(prog.root, yaml_rel), os.path.join(prog.root, py_rel)
    cl = Closure(prog, ypath)
    gm = GeneratedModule(ppath)
    desc_map = dict_literal(prog, "pyrtma.compilers.python", "desctype_map")
    out = []

    def rec(kind, key, okk, detail, line=0):
        out.append((kind, f"{py_rel}|{key}", f"{py_rel}:{line}", bool(okk), detail))

    # constants, string constants, ids
    for k, v in cl.constants.items():
        g = gm.consts.get(k)
        rec("const", f"const:{k}", g is not None and g == v, f"{k} = {v} (generated: {g})")
    for k, v in cl.string_constants.items():
        rec("const", f"strconst:{k}", gm.consts.get(k) == v, f"{k} = {v!r} (generated: {gm.consts.get(k)!r})")
    for k, v in cl.host_ids.items():
        rec("const", f"hid:{k}", gm.consts.get(k) == v, f"host id {k} = {v} (generated: {gm.consts.get(k)})")
    for k, v in cl.module_ids.items():
        rec("const", f"mid:{k}", gm.consts.get("MID_" + k) == v, f"MID_{k} = {v} (generated: {gm.consts.get('MID_' + k)})")
    for k, d in cl.messages.items():
        rec("const", f"mt:{k}", gm.consts.get("MT_" + k) == d.get("id"), f"MT_{k} = {d.get('id')} (generated: {gm.consts.get('MT_' + k)})")
    # nothing extra on the generated side
    known = set(cl.constants) | set(cl.string_constants) | set(cl.host_ids) | {"MID_" + k for k in cl.module_ids} | {"MT_" + k for k in cl.messages}
    extra = [k for k in gm.consts if k not in known and k not in ("COMPILED_PYRTMA_VERSION",) and not k.startswith("MT__RESERVED_")]
    rec("const", "no-extra-constants", not extra, f"generated module defines constants absent from the YAML closure: {extra[:6]}" if extra else "no constant without a YAML source")
    # aliases
    tmap = dict_literal(prog, "pyrtma.compilers.python", "type_map")
    for k, v in cl.aliases.items():
        exp = tmap.get(v, v)
        rec("alias", f"alias:{k}", gm.aliases.get(k) == exp, f"alias {k} = {exp} (generated: {gm.aliases.get(k)})")
    # structs and messages
    for kind, table, prefix in (("struct", cl.structs, ""), ("message", cl.messages, "MDF_")):
        for name in table:
            cname = prefix + name
            gc = gm.classes.get(cname)
            if gc is None:
                rec("class", f"class:{cname}", False, f"no generated class for {kind} {name}")
                continue
            line = gc["line"]
            meta = gc["meta"]
            text = cl.canonical_text(kind, name)
            # the generator writes  "<repr(raw)>"  into the module: the literal's value is the text wrapped in single quotes
            exp_def = "'" + text + "'"
            rec("def", f"type_def:{cname}", meta.get("type_def") == exp_def, f"type_def of {cname} equals the canonical text rebuilt from the YAML entry" if meta.get("type_def") == exp_def
                else f"type_def of {cname} differs from the YAML entry: generated {str(meta.get('type_def'))[:80]!r} vs rebuilt {exp_def[:80]!r}", line)
            h = int(hashlib.sha256(text.encode()).hexdigest()[:8], 16)
            rec("hash", f"type_hash:{cname}", meta.get("type_hash") == h, f"type_hash of {cname} = 0x{h:08X} (generated: {meta.get('type_hash')})", line)
            rec("name", f"type_name:{cname}", meta.get("type_name") == name, f"type_name {meta.get('type_name')!r} vs {name!r}", line)
            if kind == "message":
                rec("id", f"type_id:{cname}", meta.get("type_id") == table[name].get("id"), f"type_id {meta.get('type_id')} vs YAML id {table[name].get('id')}", line)
            lay = cl.layout(kind, name)
            rec("size", f"type_size:{cname}", meta.get("type_size") == lay["size"], f"type_size of {cname} = {lay['size']} by the independent natural-layout calculator (generated: {meta.get('type_size')})", line)
            # descriptor sequence
            gen = list(gc["fields"])
            gi = 0
            okseq = True
            why = ""
            for fname, off, fsize, al, pad in lay["fields"]:
                if pad:
                    if gi < len(gen) and gen[gi][0].startswith("padding_"):
                        k2, el, ln = descriptor_shape(gen[gi][1], gen[gi][2])
                        if not (el == "Char" and (ln or 1) == pad):
                            okseq, why = False, f"padding before {fname} is {gen[gi][1]}{gen[gi][2]}, expected {pad} char(s)"
                        gi += 1
                    else:
                        okseq, why = False, f"{pad} byte(s) of implicit padding before {fname} are not explicit in the generated class"
                if gi >= len(gen):
                    okseq, why = False, f"generated class ends before field {fname}"
                    break
                gname, gfn, gargs = gen[gi]
                gi += 1
                ftext = dict(cl.fields_of(kind, name))[fname]
                tname, ln = cl.split_field(ftext)
                rk, base = cl.resolve(tname)
                k2, el, gl = descriptor_shape(gfn, gargs)
                if gname != fname:
                    okseq, why = False, f"field order/name: generated {gname}, YAML {fname}"
                    break
                if rk == "native":
                    exp_el = desc_map.get(base)
                    exp_len = None if (ln is None or ln <= 1) else ln
                    if not (k2 == "native" and el == exp_el and gl == exp_len):
                        okseq, why = False, f"field {fname}: generated {gfn}{gargs}, YAML {ftext!r} -> {exp_el}[{ln}]"
                        break
                else:
                    exp_el = base if rk == "struct" else "MDF_" + base
                    if not (k2 == "struct" and el == exp_el and gl == (ln or None)):
                        okseq, why = False, f"field {fname}: generated {gfn}{gargs}, YAML {ftext!r} -> {exp_el}[{ln}]"
                        break
            if okseq and lay["tail_pad"]:
                if gi < len(gen) and gen[gi][0].startswith("padding_"):
                    k2, el, ln = descriptor_shape(gen[gi][1], gen[gi][2])
                    if not (el == "Char" and (ln or 1) == lay["tail_pad"]):
                        okseq, why = False, f"trailing padding is {gen[gi][1]}{gen[gi][2]}, expected {lay['tail_pad']} char(s)"
                    gi += 1
                else:
                    okseq, why = False, f"{lay['tail_pad']} byte(s) of trailing padding are not explicit"
            if okseq and gi != len(gen):
                okseq, why = False, f"generated class has {len(gen) - gi} extra field(s) starting at {gen[gi][0]}"
            rec("fields", f"fields:{cname}", okseq, why or f"{len(gen)} descriptor(s) match the YAML field sequence (kind, element type through aliases, length, explicit padding)", line)
    # classes without YAML source
    extra_c = [c for c in gm.classes if c not in set(cl.structs) | {"MDF_" + k for k in cl.messages} and not c.startswith("MDF__RESERVED_")]
    rec("class", "no-extra-classes", not extra_c, f"generated classes without YAML source: {extra_c[:5]}" if extra_c else "every generated class has a YAML source")
    return out, {"files": [os.path.relpath(f, prog.root) for f in cl.files], "structs": len(cl.structs), "messages": len(cl.messages), "constants": len(cl.constants),
                 "aliases": len(cl.aliases), "host_ids": len(cl.host_ids), "module_ids": len(cl.module_ids)}


def shipped_layout_report(prog: Program):
    """(key, where, ok, detail) per struct/message of every shipped YAML closure: explicit layout is natural."""
    out = []
    for yrel, prel, _ in SHIPPED_PAIRS:
        ypath = os.path.join(prog.root, yrel)
        if not os.path.exists(ypath):
            continue
        cl = Closure(prog, ypath)
        for kind, table in (("struct", cl.structs), ("message", cl.messages)):
            for name in table:
                lay = cl.layout(kind, name)
                if not lay["fields"]:
                    continue
                implicit = [f[0] for f in lay["fields"] if f[4]]
                declared = sum(f[2] for f in lay["fields"])
                okk = all(f[1] % f[3] == 0 for f in lay["fields"]) and lay["size"] % lay["align"] == 0
                det = f"{kind} {name}: size {lay['size']}, align {lay['align']}, declared bytes {declared}" + (f", implicit padding before {implicit} / tail {lay['tail_pad']} (auto-pad makes it explicit)" if implicit or lay["tail_pad"] else ", no hidden padding")
                out.append((f"{yrel}|layout:{kind}:{name}", yrel, okk, det))
    return out
