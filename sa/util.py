"""Small AST helpers shared by the rules."""
from __future__ import annotations

import ast
from typing import Callable, Iterator, List, Optional, Set

from .cfg import CFG, Node
from .program import walk_local, unparse, norm, FuncInfo, parent, ancestors


def calls_in(n: ast.AST) -> List[ast.Call]:
    return [c for c in walk_local(n) if isinstance(c, ast.Call)]


def path_of(n: ast.AST) -> Optional[str]:
    if isinstance(n, ast.Name):
        return n.id
    if isinstance(n, ast.Attribute):
        b = path_of(n.value)
        return f"{b}.{n.attr}" if b else None
    return None


def is_method_call(c: ast.AST, name) -> bool:
    names = (name,) if isinstance(name, str) else tuple(name)
    return isinstance(c, ast.Call) and isinstance(c.func, ast.Attribute) and c.func.attr in names


def recv_of(c: ast.Call) -> Optional[ast.expr]:
    return c.func.value if isinstance(c.func, ast.Attribute) else None


def call_name(c: ast.Call) -> str:
    return unparse(c.func)


def node_calls(node: Node) -> List[ast.Call]:
    """Calls evaluated when a CFG node executes (not those of nested blocks)."""
    a = node.ast
    if a is None:
        return []
    if node.kind == "for":
        return calls_in(a.iter)  # type: ignore[attr-defined]
    if node.kind == "with":
        out = []
        for it in a.items:  # type: ignore[attr-defined]
            out += calls_in(it.context_expr)
        return out
    if node.kind in ("handler", "with_exit", "dispatch", "join", "entry", "exit", "raise"):
        return []
    if isinstance(a, (ast.FunctionDef, ast.AsyncFunctionDef, ast.ClassDef)):
        return []
    return calls_in(a)


def node_has_call(node: Node, pred: Callable[[ast.Call], bool]) -> bool:
    return any(pred(c) for c in node_calls(node))


def node_exprs(node: Node) -> List[ast.AST]:
    """AST pieces evaluated at this node."""
    a = node.ast
    if a is None:
        return []
    if node.kind == "for":
        return [a.iter, a.target]  # type: ignore[attr-defined]
    if node.kind == "with":
        out = []
        for it in a.items:  # type: ignore[attr-defined]
            out.append(it.context_expr)
            if it.optional_vars is not None:
                out.append(it.optional_vars)
        return out
    if node.kind in ("handler", "with_exit", "dispatch", "join", "entry", "exit", "raise"):
        return []
    if isinstance(a, (ast.FunctionDef, ast.AsyncFunctionDef, ast.ClassDef)):
        return []
    return [a]


def stores_to_attr(node: Node, attr: str) -> List[ast.AST]:
    """Assignment targets `<x>.attr` (plain, augmented, annotated) at this node."""
    out = []
    a = node.ast
    if node.kind != "stmt" or a is None:
        return out
    tg = []
    if isinstance(a, ast.Assign):
        tg = list(a.targets)
    elif isinstance(a, (ast.AugAssign, ast.AnnAssign)):
        tg = [a.target]
    flat = []
    for t in tg:
        if isinstance(t, (ast.Tuple, ast.List)):
            flat += t.elts
        else:
            flat.append(t)
    for t in flat:
        if isinstance(t, ast.Attribute) and t.attr == attr:
            out.append(t)
    return out


def assigned_value(node: Node) -> Optional[ast.expr]:
    a = node.ast
    if isinstance(a, (ast.Assign, ast.AnnAssign, ast.AugAssign)):
        return a.value
    return None


def in_loop_body(n: ast.AST, loop: ast.AST) -> bool:
    for a in ancestors(n):
        if a is loop:
            return True
    return False


def fkey(f: FuncInfo, construct) -> str:
    c = construct if isinstance(construct, str) else norm(construct)
    if len(c) > 160:
        c = c[:157] + "..."
    return f"{f.module.name}::{f.qual}|{c}"


def where(f: FuncInfo, n=None) -> str:
    return f.loc(n)


class Iteration:
    """A `for` loop or one generator clause of a comprehension / generator expression, seen uniformly."""

    def __init__(self, node, it, target, body, conditions, is_comp):
        self.node, self.iter, self.target, self.body, self.conditions, self.is_comp = node, it, target, body, conditions, is_comp

    def calls(self):
        return [c for b in self.body for c in (calls_in(b) if not isinstance(b, ast.Call) else [b] + [x for a in ast.iter_child_nodes(b) for x in calls_in(a)])]


def iterations(root):
    """every iteration construct below root (not descending into nested defs): for loops and comprehension clauses"""
    from .program import walk_local as _wl

    out = []
    for n in _wl(root):
        if isinstance(n, ast.For):
            out.append(Iteration(n, n.iter, n.target, list(n.body), [], False))
        elif isinstance(n, (ast.ListComp, ast.SetComp, ast.GeneratorExp)):
            for g in n.generators:
                out.append(Iteration(n, g.iter, g.target, [n.elt], list(g.ifs), True))
        elif isinstance(n, ast.DictComp):
            for g in n.generators:
                out.append(Iteration(n, g.iter, g.target, [n.key, n.value], list(g.ifs), True))
    return out
