"""Abstract interpreter for the subscription algebra (C02 only).

The client and manager subscription operations are set algebra over message
types that only ever compares types for equality / membership.  By that
data-independence a small universe of symbolic types is complete.  This module
interprets the *source* of those functions (read from the AST on every run)
over symbolic types with a deliberately small statement/expression vocabulary;
anything outside it raises AnalysisError (the abstraction can never silently
mis-model new code).  No repository code is imported or executed.
"""
from __future__ import annotations

import ast
from collections import defaultdict
from typing import Any, Callable, Dict, List, Optional

from .program import AnalysisError, ClassInfo, FuncInfo, Program, norm


class Sym(str):
    """A symbolic message type; only ==, !=, in, hash are meaningful."""

    def __repr__(self):
        return f"<{str(self)}>"


class Obj:
    def __init__(self, cls: Optional[ClassInfo], clsname: str, **attrs):
        self.__dict__["_cls"] = cls
        self.__dict__["_clsname"] = clsname
        self.__dict__["_attrs"] = dict(attrs)

    def get(self, k):
        return self._attrs[k]

    def has(self, k):
        return k in self._attrs

    def set(self, k, v):
        self._attrs[k] = v

    def __repr__(self):
        return f"Obj({self._clsname})"


class ModelIter:
    """a one-shot iterator object (`iter(x)`, `islice(it, n)`, `iter(callable, sentinel)`): consumed lazily, shared by reference"""

    def __init__(self, py):
        self.py = py

    def __iter__(self):
        return self.py

    def __next__(self):
        return next(self.py)


class FixedArray:
    """A fixed-length ctypes-like array field: index and slice stores, length-checked like ctypes."""

    def __init__(self, n, fill=0):
        self.items = [fill] * n

    def store(self, k, v, interp, node):
        if isinstance(k, slice):
            idx = range(*k.indices(len(self.items)))
            vs = list(v)
            if len(vs) != len(idx):
                raise ModelRaise("ValueError(can only assign sequence of same size)")
            for i, x in zip(idx, vs):
                self.items[i] = x
        elif isinstance(k, int) and not isinstance(k, bool):
            if not -len(self.items) <= k < len(self.items):
                raise ModelRaise("IndexError(invalid index)")
            self.items[k] = v
        else:
            interp.fail(node, "array index of unsupported kind")


class ModelRaise(Exception):
    def __init__(self, name):
        self.name = name


class _Return(Exception):
    def __init__(self, v):
        self.v = v


class _Break(Exception):
    pass


class _Continue(Exception):
    pass


class _YieldPoint(Exception):
    pass


IGNORED_CALLS = {"warn", "print"}
SET_METHODS = {"add", "discard", "remove", "clear", "copy", "update", "difference_update", "intersection", "union", "difference", "issubset", "issuperset", "isdisjoint",
               "intersection_update", "symmetric_difference"}
LIST_METHODS = {"append", "remove", "copy", "clear", "extend", "insert", "pop", "index", "count"}


class Interp:
    def __init__(self, prog: Program, intercept: Dict[str, Callable], const_env: Dict[str, Any], where="", construct: Callable = None):
        self.prog = prog
        self.construct = construct
        self.intercept = intercept  # method name -> handler(self_obj, args)
        self.const_env = const_env
        self.steps = 0
        self.vocab: Dict[str, int] = {}

    # -- helpers ---------------------------------------------------------------------------
    _modconsts: Dict[Any, Any] = {}

    def fail(self, node, what):
        raise AnalysisError(f"abstract interpreter vocabulary exceeded: {what}: `{norm(node)[:90]}` (line {getattr(node, 'lineno', '?')})")

    def tick(self, node):
        self.steps += 1
        k = type(node).__name__
        self.vocab[k] = self.vocab.get(k, 0) + 1
        if self.steps > 200000:
            raise AnalysisError("C02 interpreter step limit")

    # -- calling -----------------------------------------------------------------------------
    def call_method(self, fi: FuncInfo, self_obj, args: List[Any], kwargs: Dict[str, Any] = None):
        kwargs = kwargs or {}
        env: Dict[str, Any] = {}
        a = fi.node.args
        params = [x.arg for x in a.posonlyargs + a.args]
        defaults = a.defaults
        dmap = {}
        for p, d in zip(params[len(params) - len(defaults):], defaults):
            dmap[p] = d
        vals = ([self_obj] if self_obj is not None and params and params[0] == "self" else []) + list(args)
        for i, p in enumerate(params):
            if i < len(vals):
                env[p] = vals[i]
            elif p in kwargs:
                env[p] = kwargs[p]
            elif p in dmap:
                env[p] = self.eval(dmap[p], {})
            else:
                self.fail(fi.node, f"missing argument {p} calling {fi.qual}")
        env["__func__"] = fi
        try:
            self.block(fi.node.body, env)
        except _Return as r:
            return r.v
        return None

    def run_generator(self, fi: FuncInfo, self_obj, args: List[Any]):
        """Runs a @contextmanager generator function; returns (enter, exit) callables."""
        body = list(fi.node.body)
        # find the top-level yield: either `yield` statement, or try: yield finally: ...
        idx, post_extra, shape = None, [], None
        for i, st in enumerate(body):
            if isinstance(st, ast.Expr) and isinstance(st.value, ast.Yield):
                idx, shape = i, "plain"
            elif isinstance(st, ast.Try) and len(st.body) == 1 and isinstance(st.body[0], ast.Expr) and isinstance(st.body[0].value, ast.Yield) and not st.handlers:
                idx, shape = i, "finally"
                post_extra = list(st.finalbody)
        if idx is None:
            self.fail(fi.node, "context manager without a top-level `yield` / `try: yield finally:`")
        pre, post = body[:idx], post_extra + body[idx + 1:]
        env: Dict[str, Any] = {}
        params = fi.params()
        vals = ([self_obj] if params and params[0] == "self" else []) + list(args)
        for p, v in zip(params, vals):
            env[p] = v
        env["__func__"] = fi

        def enter():
            try:
                self.block(pre, env)
            except _Return:
                self.fail(fi.node, "return before yield in a context manager")

        def exit_():
            try:
                self.block(post, env)
            except _Return:
                pass

        return enter, exit_, shape

    # -- statements ------------------------------------------------------------------------------
    def block(self, stmts, env):
        for st in stmts:
            self.stmt(st, env)

    def stmt(self, st, env):
        self.tick(st)
        if isinstance(st, ast.Expr):
            if isinstance(st.value, ast.Constant):
                return
            if isinstance(st.value, ast.Yield):
                self.fail(st, "nested yield")
            self.eval(st.value, env)
            return
        if isinstance(st, ast.Assign):
            v = self.eval(st.value, env)
            for t in st.targets:
                self.assign(t, v, env)
            return
        if isinstance(st, ast.AnnAssign):
            if st.value is not None:
                self.assign(st.target, self.eval(st.value, env), env)
            return
        if isinstance(st, ast.AugAssign):
            cur = self.eval(_load(st.target), env)
            v = self.eval(st.value, env)
            if isinstance(st.op, ast.BitOr) and isinstance(cur, set):
                cur |= set(v)
            elif isinstance(st.op, ast.Sub) and isinstance(cur, set):
                cur -= set(v)
            elif isinstance(st.op, ast.BitAnd) and isinstance(cur, set):
                cur &= set(v)
            elif isinstance(st.op, ast.Add) and isinstance(cur, list):
                cur += list(v)
            elif isinstance(st.op, ast.Add) and isinstance(cur, int) and not isinstance(cur, bool):
                self.assign(st.target, cur + v, env)
            else:
                self.fail(st, "augmented assignment outside the set vocabulary")
            return
        if isinstance(st, ast.If):
            self.block(st.body if self.truth(self.eval(st.test, env), st.test) else st.orelse, env)
            return
        if isinstance(st, ast.For):
            it = self.eval(st.iter, env)
            try:
                if isinstance(it, list):
                    i = 0
                    while i < len(it):  # CPython list iteration semantics (index based, sees mutations)
                        self.assign(st.target, it[i], env)
                        i += 1
                        try:
                            self.block(st.body, env)
                        except _Continue:
                            continue
                elif isinstance(it, (set, frozenset)):
                    snapshot = sorted(it, key=str)
                    n0 = len(it)
                    for x in snapshot:
                        self.assign(st.target, x, env)
                        try:
                            self.block(st.body, env)
                        except _Continue:
                            continue
                        if len(it) != n0:
                            raise ModelRaise("RuntimeError(set changed size during iteration)")
                elif isinstance(it, (tuple, range, ModelIter)):
                    for x in it:
                        self.assign(st.target, x, env)
                        try:
                            self.block(st.body, env)
                        except _Continue:
                            continue
                else:
                    self.fail(st, f"iteration over {type(it).__name__}")
            except _Break:
                return
            self.block(st.orelse, env)
            return
        if isinstance(st, ast.While):
            try:
                while self.truth(self.eval(st.test, env), st.test):
                    try:
                        self.block(st.body, env)
                    except _Continue:
                        continue
            except _Break:
                return
            self.block(st.orelse, env)
            return
        if isinstance(st, ast.Assert):
            if not self.truth(self.eval(st.test, env), st.test):
                raise ModelRaise("AssertionError")
            return
        if isinstance(st, ast.Return):
            raise _Return(self.eval(st.value, env) if st.value is not None else None)
        if isinstance(st, ast.Raise):
            e = st.exc.func if isinstance(st.exc, ast.Call) else st.exc
            raise ModelRaise(norm(e).split(".")[-1] if e is not None else "reraise")
        if isinstance(st, ast.Break):
            raise _Break()
        if isinstance(st, ast.Continue):
            raise _Continue()
        if isinstance(st, ast.Pass):
            return
        if isinstance(st, ast.With):
            for it in st.items:
                v = self.eval(it.context_expr, env)
                if it.optional_vars is not None:
                    self.assign(it.optional_vars, v, env)
            self.block(st.body, env)
            return
        if isinstance(st, ast.Try):
            # try/finally, and handlers that name the exception classes the model itself can raise (KeyError from a mapping
            # lookup, the classes of explicit `raise` statements)
            try:
                try:
                    self.block(st.body, env)
                except ModelRaise as r:
                    for h in st.handlers:
                        names = [norm(x).split(".")[-1] for x in (h.type.elts if isinstance(h.type, ast.Tuple) else [h.type])] if h.type is not None else ["*"]
                        if any(nm == "*" or nm in ("Exception", "BaseException") or r.name.split("(")[0] == nm or (nm == "LookupError" and r.name.split("(")[0] in ("KeyError", "IndexError")) for nm in names):
                            if h.name:
                                env[h.name] = Sym(r.name)
                            self.block(h.body, env)
                            break
                    else:
                        raise
                else:
                    self.block(st.orelse, env)
            finally:
                self.block(st.finalbody, env)
            return
        self.fail(st, f"statement kind {type(st).__name__}")

    def assign(self, t, v, env):
        if isinstance(t, ast.Name):
            env[t.id] = v
        elif isinstance(t, ast.Attribute):
            o = self.eval(t.value, env)
            if not isinstance(o, Obj):
                self.fail(t, "attribute store on a non-object")
            o.set(t.attr, v)
        elif isinstance(t, (ast.Tuple, ast.List)):
            vs = list(v)
            if len(vs) != len(t.elts):
                self.fail(t, "unpacking length mismatch")
            for x, y in zip(t.elts, vs):
                self.assign(x, y, env)
        elif isinstance(t, ast.Subscript):
            base = self.eval(t.value, env)
            k = self.eval(t.slice, env)
            if isinstance(base, FixedArray):
                base.store(k, v, self, t)
            elif isinstance(base, (list, dict, defaultdict)) and not isinstance(k, slice):
                base[k] = v
            elif isinstance(base, list) and isinstance(k, slice) and isinstance(v, (list, tuple)):
                base[k] = list(v)  # `fields[:] = laid_out`: in-place replacement, the list object stays the same
            else:
                self.fail(t, "subscript store")
        else:
            self.fail(t, "assignment target")

    def truth(self, v, node):
        if isinstance(v, (bool, int, set, frozenset, list, tuple, str, dict)) or v is None:
            return bool(v)
        if isinstance(v, Obj):
            return True
        self.fail(node, f"truth value of {type(v).__name__}")

    # -- expressions --------------------------------------------------------------------------------
    def eval(self, e, env):
        self.tick(e)
        if isinstance(e, ast.Constant):
            return e.value
        if isinstance(e, ast.JoinedStr):
            # built when every part is a literal or an int / str value with a literal format (`f"padding_{npad}_"`); text that
            # involves anything else (objects, reprs) is outside the model and stays opaque
            parts = []
            for v in e.values:
                if isinstance(v, ast.Constant) and isinstance(v.value, str):
                    parts.append(v.value)
                    continue
                if isinstance(v, ast.FormattedValue) and v.conversion == -1 and (v.format_spec is None or (len(v.format_spec.values) == 1 and isinstance(v.format_spec.values[0], ast.Constant))) \
                        and isinstance(v.value, (ast.Name, ast.Constant)):
                    try:
                        val = self.eval(v.value, env)
                    except AnalysisError:
                        return "<fstring>"
                    if isinstance(val, (int, str)) and not isinstance(val, bool):
                        try:
                            parts.append(format(val, v.format_spec.values[0].value if v.format_spec is not None else ""))
                            continue
                        except (ValueError, TypeError):
                            pass
                return "<fstring>"
            return "".join(parts)
        if isinstance(e, ast.Name):
            if e.id in env:
                return env[e.id]
            if e.id in self.const_env:
                return self.const_env[e.id]
            # a module-level constant of the module the current function lives in (a dispatch table, a tuple of names)
            fi_ = env.get("__func__")
            mod_ = getattr(fi_, "module", None)
            if mod_ is not None and e.id in getattr(mod_, "classes", {}):
                return ("class", mod_.classes[e.id])
            if mod_ is not None and e.id in getattr(mod_, "assigns", {}):
                key_ = (mod_.name, e.id)
                if key_ not in self._modconsts:
                    self._modconsts[key_] = self.eval(mod_.assigns[e.id], {"__func__": fi_})
                return self._modconsts[key_]
            self.fail(e, "unknown name")
        if isinstance(e, ast.Attribute):
            # module constant like cd.X
            p = _path(e)
            if p in self.const_env:
                return self.const_env[p]
            base = self.eval(e.value, env)
            if isinstance(base, Obj):
                fi = self.prog.find_method(base._cls, e.attr) if base._cls is not None else None
                # a property is a data descriptor: it shadows an instance attribute of the same name
                if fi is not None and any(d.split(".")[-1] == "property" for d in fi.decorators):
                    return self.call_method(fi, base, [])
                if base.has(e.attr):
                    return base.get(e.attr)
                if fi is not None:
                    return ("bound", fi, base)
                if base._clsname == "ContextVar" and e.attr in ("get", "set", "reset"):
                    return ("ctxvar", base, e.attr)
                self.fail(e, f"attribute {e.attr} of {base._clsname} not modelled")
            if isinstance(base, (set, list, dict, defaultdict)):
                return ("cmeth", base, e.attr)
            if isinstance(base, tuple) and base and base[0] == "class":
                return ("clsattr", base[1], e.attr)
            self.fail(e, "attribute access")
        if isinstance(e, ast.BoolOp):
            if isinstance(e.op, ast.And):
                v = True
                for x in e.values:
                    v = self.eval(x, env)
                    if not self.truth(v, x):
                        return v
                return v
            v = False
            for x in e.values:
                v = self.eval(x, env)
                if self.truth(v, x):
                    return v
            return v
        if isinstance(e, ast.UnaryOp) and isinstance(e.op, ast.Not):
            return not self.truth(self.eval(e.operand, env), e.operand)
        if isinstance(e, ast.Compare):
            left = self.eval(e.left, env)
            res = True
            for op, r in zip(e.ops, e.comparators):
                right = self.eval(r, env)
                if isinstance(op, ast.Eq):
                    ok = self._eq(left, right, e)
                elif isinstance(op, ast.NotEq):
                    ok = not self._eq(left, right, e)
                elif isinstance(op, ast.In):
                    ok = self._in(left, right, e)
                elif isinstance(op, ast.NotIn):
                    ok = not self._in(left, right, e)
                elif isinstance(op, ast.Is):
                    ok = self._same(left, right)
                elif isinstance(op, ast.IsNot):
                    ok = not self._same(left, right)
                elif isinstance(op, (ast.Lt, ast.Gt, ast.LtE, ast.GtE)) and all(isinstance(x, (int, float)) and not isinstance(x, bool) for x in (left, right)):
                    ok = {ast.Lt: left < right, ast.Gt: left > right, ast.LtE: left <= right, ast.GtE: left >= right}[type(op)]
                else:
                    self.fail(e, "ordering comparison (message types may only be compared for equality / membership)")
                res = res and ok
                left = right
            return res
        if isinstance(e, (ast.List, ast.Tuple)):
            vs = [self.eval(x, env) for x in e.elts]
            return vs if isinstance(e, ast.List) else tuple(vs)
        if isinstance(e, ast.Set):
            return {self.eval(x, env) for x in e.elts}
        if isinstance(e, ast.Dict) and all(k is not None for k in e.keys):
            out_ = {}
            for k_, v_ in zip(e.keys, e.values):
                kk = self.eval(k_, env)
                try:
                    out_[kk] = self.eval(v_, env)
                except TypeError:
                    self.fail(e, "unhashable key in dict display")
            return out_
        if isinstance(e, ast.Subscript):
            base = self.eval(e.value, env)
            k = self.eval(e.slice, env)
            if isinstance(base, defaultdict):
                return base[k]
            if isinstance(base, dict):
                try:
                    if k not in base:
                        raise ModelRaise("KeyError")
                except TypeError:
                    self.fail(e, "unhashable mapping key")
                return base[k]
            if isinstance(base, (list, tuple)) and isinstance(k, int) and not isinstance(k, bool):
                if not -len(base) <= k < len(base):
                    raise ModelRaise("IndexError")
                return base[k]
            if isinstance(base, (list, tuple)) and isinstance(k, slice) and all(x is None or (isinstance(x, int) and not isinstance(x, bool)) for x in (k.start, k.stop, k.step)):
                return base[k]
            if isinstance(base, FixedArray) and isinstance(k, (int, slice)):
                return base.items[k]
            self.fail(e, "subscript")
        if isinstance(e, ast.Call):
            return self.call(e, env)
        if isinstance(e, ast.IfExp):
            return self.eval(e.body if self.truth(self.eval(e.test, env), e.test) else e.orelse, env)
        if isinstance(e, ast.NamedExpr) and isinstance(e.target, ast.Name):
            v = self.eval(e.value, env)
            env[e.target.id] = v
            return v
        if isinstance(e, ast.Lambda) and not e.args.args and not e.args.vararg and not e.args.kwarg:
            return ("lambda", e, env)  # closure over the live environment (late binding, like Python)
        if isinstance(e, ast.GeneratorExp) and len(e.generators) == 1:
            return self.eval(ast.ListComp(elt=e.elt, generators=e.generators), env)
        if isinstance(e, ast.ListComp) and len(e.generators) == 1 and not e.generators[0].is_async:
            gen = e.generators[0]
            it = self.eval(gen.iter, env)
            out = []
            seq = list(it) if isinstance(it, (list, tuple, range)) else sorted(it, key=str)
            for x in seq:
                sub = dict(env)
                self.assign(gen.target, x, sub)
                if all(self.truth(self.eval(c, sub), c) for c in gen.ifs):
                    out.append(self.eval(e.elt, sub))
            return out
        if isinstance(e, ast.SetComp) and len(e.generators) == 1:
            return set(self.eval(ast.ListComp(elt=e.elt, generators=e.generators), env))
        if isinstance(e, ast.BinOp):
            l, r = self.eval(e.left, env), self.eval(e.right, env)
            if isinstance(e.op, (ast.Sub, ast.BitOr, ast.BitAnd)) and isinstance(l, (set, frozenset)) and isinstance(r, (set, frozenset)):
                return {ast.Sub: l - r, ast.BitOr: l | r, ast.BitAnd: l & r}[type(e.op)]
            if isinstance(e.op, ast.Add) and isinstance(l, str) and isinstance(r, str):
                return "<fstring>" if "<fstring>" in (l, r) else l + r  # text built by concatenation (opaque parts stay opaque)
            if isinstance(e.op, ast.Add) and isinstance(l, list) and isinstance(r, list):
                return l + r
            num = lambda x: isinstance(x, (int, float)) and not isinstance(x, bool)
            if num(l) and num(r):
                if isinstance(e.op, ast.Add):
                    return l + r
                if isinstance(e.op, ast.Sub):
                    return l - r
                if isinstance(e.op, ast.Mult):
                    return l * r
                if isinstance(e.op, ast.Mod) and r != 0:
                    return l % r
                if isinstance(e.op, ast.FloorDiv) and r != 0:
                    return l // r
            self.fail(e, "arithmetic outside the vocabulary (sets: - | &; numbers: + - * % //)")
        if isinstance(e, ast.UnaryOp) and isinstance(e.op, ast.USub):
            v = self.eval(e.operand, env)
            if isinstance(v, (int, float)) and not isinstance(v, bool):
                return -v
            self.fail(e, "negation of a non-number")
        if isinstance(e, ast.Slice):
            return slice(self.eval(e.lower, env) if e.lower is not None else None, self.eval(e.upper, env) if e.upper is not None else None,
                         self.eval(e.step, env) if e.step is not None else None)
        self.fail(e, f"expression kind {type(e).__name__}")

    @staticmethod
    def _same(a, b) -> bool:
        """identity: class attributes (enum members, class-level constants) are the same object when class and name agree"""
        if isinstance(a, tuple) and isinstance(b, tuple) and a and b and a[0] == b[0] == "clsattr":
            return a[1] is b[1] and a[2] == b[2]
        return a is b

    def _eq(self, a, b, node):
        if all(isinstance(x, tuple) and x and x[0] == "clsattr" for x in (a, b)):
            return self._same(a, b)
        for x in (a, b):
            if not (isinstance(x, (Sym, str, bool, int)) or x is None):
                self.fail(node, f"equality on {type(x).__name__}")
        return a == b

    def _in(self, a, b, node):
        if isinstance(b, (set, frozenset, list, tuple, dict, defaultdict)):
            return a in b
        self.fail(node, f"membership in {type(b).__name__}")

    def call(self, e: ast.Call, env):
        fn = e.func
        kwargs = {k.arg: self.eval(k.value, env) for k in e.keywords if k.arg}
        if isinstance(fn, ast.Name):
            nm = fn.id
            if nm in IGNORED_CALLS:
                return None
            if nm == "next" and len(e.args) == 1 and isinstance(e.args[0], ast.GeneratorExp) and len(e.args[0].generators) == 1 \
                    and isinstance(e.args[0].generators[0].iter, ast.Call) and (_path(e.args[0].generators[0].iter.func) or "").split(".")[-1] == "count":
                # next(<elt> for n in itertools.count(start) if <cond>): the first n that satisfies the conditions (searched lazily)
                ge = e.args[0]
                gen = ge.generators[0]
                cargs = [self.eval(a, env) for a in gen.iter.args]
                start = cargs[0] if cargs else 0
                step = cargs[1] if len(cargs) > 1 else 1
                if not all(isinstance(x, int) and not isinstance(x, bool) for x in (start, step)):
                    self.fail(e, "itertools.count over non-integers")
                i = start
                for _ in range(100000):
                    sub = dict(env)
                    self.assign(gen.target, i, sub)
                    if all(self.truth(self.eval(c, sub), c) for c in gen.ifs):
                        return self.eval(ge.elt, sub)
                    i += step
                self.fail(e, "unbounded search over itertools.count")
            args = [self.eval(a, env) for a in e.args]
            ce = self.const_env.get(nm)
            if nm in env and isinstance(env[nm], tuple) and env[nm] and env[nm][0] in ("class", "pyfunc"):
                ce = env[nm]  # a class / function held in a local (`msg_cls, adding, pausing = TABLE[word]; msg_cls()`)
            if ce is None and nm not in env:
                mod_ = getattr(env.get("__func__"), "module", None)
                if mod_ is not None and nm in getattr(mod_, "classes", {}):
                    ce = ("class", mod_.classes[nm])  # a class of the module the current function lives in
            if isinstance(ce, tuple) and ce and ce[0] == "class":
                if self.construct is None:
                    # same default as for `cd.MDF_X()`: an object of that class
                    return Obj(ce[1], ce[1].name, **{"msg_type": None})
                return self.construct(ce[1], args, kwargs)
            if isinstance(ce, tuple) and ce and ce[0] == "pyfunc":
                return ce[1](*args, **kwargs)
            if nm in ("any", "all") and len(args) == 1:
                return (any if nm == "any" else all)(self.truth(x, e) for x in args[0])
            if nm in ("max", "min", "sum") and args and all(isinstance(x, (int, float)) and not isinstance(x, bool) for x in (args[0] if len(args) == 1 and isinstance(args[0], (list, tuple)) else args)):
                seq = args[0] if len(args) == 1 and isinstance(args[0], (list, tuple)) else args
                if nm != "sum" and not seq:
                    raise ModelRaise("ValueError(empty sequence)")
                return {"max": max, "min": min, "sum": sum}[nm](seq)
            if nm == "isinstance" and len(args) == 2:
                o, c = args
                cs = c if isinstance(c, tuple) and c and not (isinstance(c[0], str)) else (c,)
                for k in cs:
                    if isinstance(k, tuple) and k and k[0] == "class" and isinstance(o, Obj) and o._cls is not None and k[1] in self.prog.mro(o._cls):
                        return True
                return False
            if nm == "next" and len(args) == 2 and isinstance(args[0], list):
                # next(<generator expression>, default): the generator was evaluated eagerly (its conditions have no side effects
                # in the vocabulary), the first element is what next() would produce
                return args[0][0] if args[0] else args[1]
            if nm == "next" and len(args) in (1, 2) and isinstance(args[0], ModelIter):
                try:
                    return next(args[0].py)
                except StopIteration:
                    if len(args) == 2:
                        return args[1]
                    raise ModelRaise("StopIteration()")
            if nm == "zip" and args and all(isinstance(a, (list, tuple, ModelIter)) for a in args) and not kwargs:
                # the built-in itself over the model's iterators: it draws from its arguments left to right and stops at the first
                # exhausted one (an element already drawn from an earlier argument is lost - which is what a rule may be about)
                return ModelIter(zip(*[(a.py if isinstance(a, ModelIter) else iter(list(a))) for a in args]))
            if nm == "count" and len(args) <= 2 and all(isinstance(a, int) and not isinstance(a, bool) for a in args):
                import itertools as _it
                return ModelIter(_it.count(*args))
            if nm == "divmod" and len(args) == 2 and all(isinstance(a, int) and not isinstance(a, bool) for a in args):
                if args[1] == 0:
                    raise ModelRaise("ZeroDivisionError()")
                return divmod(args[0], args[1])
            if nm == "iter" and len(args) == 1 and isinstance(args[0], (list, tuple, ModelIter)):
                return args[0] if isinstance(args[0], ModelIter) else ModelIter(iter(list(args[0])))
            if nm == "iter" and len(args) == 2 and isinstance(args[0], tuple) and args[0] and args[0][0] == "lambda":
                lam, lenv = args[0][1], args[0][2]
                sentinel = args[1]

                def gen(lam=lam, lenv=lenv, sentinel=sentinel):
                    for _ in range(100000):
                        v = self.eval(lam.body, dict(lenv))
                        if v == sentinel:
                            return
                        yield v
                    self.fail(e, "unbounded iter(callable, sentinel)")

                return ModelIter(gen())
            if nm == "islice" and len(args) in (2, 3) and isinstance(args[0], (list, tuple, ModelIter)) and all(isinstance(a, int) or a is None for a in args[1:]):
                import itertools as _it
                return ModelIter(_it.islice(iter(args[0]) if not isinstance(args[0], ModelIter) else args[0].py, *args[1:]))
            if nm in ("list", "tuple") and args and isinstance(args[0], ModelIter):
                vs = list(args[0].py)
                return vs if nm == "list" else tuple(vs)
            if nm == "set":
                return set(args[0]) if args else set()
            if nm == "frozenset":
                return frozenset(args[0]) if args else frozenset()
            if nm == "list":
                return list(args[0]) if args and isinstance(args[0], list) else (sorted(args[0], key=str) if args else [])
            if nm == "tuple":
                return tuple(args[0]) if args else ()
            if nm == "len":
                return len(args[0])
            if nm == "enumerate":
                start = kwargs.get("start", args[1] if len(args) > 1 else 0)
                if isinstance(args[0], ModelIter):
                    # lazily: the body of the loop may consume the iterator underneath
                    return ModelIter(((i + start, x) for i, x in enumerate(args[0].py)))
                return [(i + start, x) for i, x in enumerate(list(args[0]))]
            if nm == "range" and all(isinstance(a, int) and not isinstance(a, bool) for a in args) and 1 <= len(args) <= 3:
                return list(range(*args))
            if nm == "int" and args and isinstance(args[0], (bool, int)):
                return int(args[0])
            if nm == "bool":
                return self.truth(args[0], e)
            if nm == "str" and len(args) == 1 and (isinstance(args[0], (int, str)) or args[0] is None):
                return str(args[0])
            if nm == "format" and 1 <= len(args) <= 2 and isinstance(args[0], (int, str)) and not isinstance(args[0], bool) and (len(args) == 1 or isinstance(args[1], str)):
                try:
                    return format(*args)
                except (ValueError, TypeError):
                    pass
            self.fail(e, f"call of {nm}")
        if isinstance(fn, ast.Attribute) and isinstance(fn.value, ast.Name) and fn.value.id == "itertools" and "itertools" not in env and fn.attr in ("count", "islice", "chain"):
            # itertools.count(...) is count(...)
            return self.call(ast.copy_location(ast.Call(func=ast.copy_location(ast.Name(id=fn.attr, ctx=ast.Load()), fn), args=e.args, keywords=e.keywords), e), env)
        if isinstance(fn, ast.Attribute):
            # logging is outside the model
            p = _path(fn) or ""
            if ".logger." in "." + p + "." or p.startswith("self.logger") or p.startswith("self._logger"):
                return None
            # class constructors / from_buffer through the module alias
            tgt = self.eval(fn, env) if not p.startswith("self.logger") else None
            args = [self.eval(a, env) for a in e.args]
            if isinstance(tgt, tuple):
                kind = tgt[0]
                if kind == "pyfunc":
                    return tgt[1](*args)
                if kind == "class":  # cd.MDF_X()
                    if self.construct is not None:
                        return self.construct(tgt[1], args, kwargs)
                    return Obj(tgt[1], tgt[1].name, **{"msg_type": None})
                if kind == "clsattr" and tgt[2] in ("from_buffer", "from_buffer_copy"):
                    # view of a received payload: the frame itself, provided the viewing class starts with msg_type
                    cls = tgt[1]
                    frame = args[0]
                    if not isinstance(frame, Obj):
                        self.fail(e, "from_buffer of a non-frame")
                    return Obj(cls, cls.name, msg_type=frame.get("msg_type"))
                if kind == "ctxvar":
                    var, meth = tgt[1], tgt[2]
                    if meth == "get":
                        return var.get("value")
                    if meth == "set" and len(args) == 1:
                        tok = ("token", var, var.get("value"))
                        var.set("value", args[0])
                        return tok
                    if meth == "reset" and len(args) == 1 and isinstance(args[0], tuple) and args[0][0] == "token" and args[0][1] is var:
                        var.set("value", args[0][2])
                        return None
                    self.fail(e, f"ContextVar.{meth}")
                if kind == "bound":
                    fi, selfobj = tgt[1], tgt[2]
                    if fi.name in self.intercept:
                        return self.intercept[fi.name](selfobj, args, kwargs)
                    return self.call_method(fi, selfobj, args, kwargs)
                if kind == "cmeth" and isinstance(tgt[1], (dict, defaultdict)) and tgt[2] in ("items", "keys", "values", "clear", "get", "setdefault", "pop"):
                    if tgt[2] == "pop" and len(args) == 1 and args[0] not in tgt[1]:
                        raise ModelRaise(f"KeyError({args[0]!r})")
                    return {"items": lambda: list(tgt[1].items()), "keys": lambda: list(tgt[1].keys()), "values": lambda: list(tgt[1].values()),
                            "clear": tgt[1].clear, "get": lambda *a: tgt[1].get(*a), "setdefault": lambda *a: tgt[1].setdefault(*a), "pop": lambda *a: tgt[1].pop(*a)}[tgt[2]](*args)
                if kind == "cmeth":
                    cont, meth = tgt[1], tgt[2]
                    if isinstance(cont, set) and meth in SET_METHODS:
                        return getattr(cont, meth)(*args)
                    if isinstance(cont, list) and meth in LIST_METHODS:
                        return getattr(cont, meth)(*args)
                    self.fail(e, f"container method {meth}")
            self.fail(e, "call target")
        self.fail(e, "call")


def _load(t):
    n = ast.parse(norm(t), mode="eval").body
    return n


def _path(n):
    if isinstance(n, ast.Name):
        return n.id
    if isinstance(n, ast.Attribute):
        b = _path(n.value)
        return f"{b}.{n.attr}" if b else None
    return None
