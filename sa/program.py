"""Program loader: parses /repo's Python sources into module / class / function
tables.  Pure stdlib `ast`; nothing from the repository is imported or run."""
from __future__ import annotations

import ast
import os
from dataclasses import dataclass, field
from typing import Dict, List, Optional, Tuple, Iterator


class AnalysisError(Exception):
    """Anchor vanished, vocabulary exceeded, floor missed: exit 2, never exit 1."""


def unparse(n) -> str:
    try:
        return ast.unparse(n)
    except Exception:  # pragma: no cover
        return ast.dump(n)


def norm(n) -> str:
    """Normalised text of a construct (position independent instance key)."""
    s = unparse(n)
    return " ".join(s.split())


def short(n, limit=110) -> str:
    s = norm(n)
    return s if len(s) <= limit else s[: limit - 3] + "..."


@dataclass
class FuncInfo:
    name: str
    qual: str  # "Class.method" or "func" (nested: outer.<locals>.inner)
    module: "ModuleInfo"
    node: ast.FunctionDef
    cls: Optional["ClassInfo"] = None

    @property
    def key(self) -> str:
        return f"{self.module.name}::{self.qual}"

    @property
    def decorators(self) -> List[str]:
        return [unparse(d) for d in self.node.decorator_list]

    def params(self) -> List[str]:
        a = self.node.args
        return [x.arg for x in a.posonlyargs + a.args]

    def param_annotations(self) -> Dict[str, ast.expr]:
        a = self.node.args
        out = {}
        for x in a.posonlyargs + a.args + a.kwonlyargs:
            if x.annotation is not None:
                out[x.arg] = x.annotation
        return out

    def loc(self, n=None) -> str:
        n = n or self.node
        return f"{self.module.rel}:{getattr(n, 'lineno', 0)}"


@dataclass
class ClassInfo:
    name: str
    module: "ModuleInfo"
    node: ast.ClassDef
    base_exprs: List[str] = field(default_factory=list)
    methods: Dict[str, FuncInfo] = field(default_factory=dict)
    attr_ann: Dict[str, ast.expr] = field(default_factory=dict)  # attribute -> annotation expr
    class_consts: Dict[str, ast.expr] = field(default_factory=dict)  # simple class-level assignments

    @property
    def key(self) -> str:
        return f"{self.module.name}::{self.name}"


@dataclass
class ModuleInfo:
    name: str  # dotted, e.g. pyrtma.manager
    path: str
    rel: str  # path relative to repo root
    tree: ast.Module
    source: str
    imports: Dict[str, str] = field(default_factory=dict)  # local alias -> dotted target
    functions: Dict[str, FuncInfo] = field(default_factory=dict)  # qual -> info
    classes: Dict[str, ClassInfo] = field(default_factory=dict)
    assigns: Dict[str, ast.expr] = field(default_factory=dict)  # module level NAME = expr / NAME: T = expr


_SHARED_NODE_KINDS = (ast.expr_context, ast.operator, ast.boolop, ast.unaryop, ast.cmpop)


def _set_parents(tree: ast.AST):
    for parent in ast.walk(tree):
        for child in ast.iter_child_nodes(parent):
            # Load() / Store() / Add() ... are singletons shared by every tree the parser ever built in this process: a parent
            # link on them would tie all trees together (and make every deepcopy drag an old tree along)
            if isinstance(child, _SHARED_NODE_KINDS):
                continue
            child._parent = parent  # type: ignore[attr-defined]
    tree._parent = None  # type: ignore[attr-defined]


def parent(n):
    return getattr(n, "_parent", None)


def ancestors(n) -> Iterator[ast.AST]:
    p = parent(n)
    while p is not None:
        yield p
        p = parent(p)


def enclosing_stmt(n) -> ast.stmt:
    while not isinstance(n, ast.stmt):
        n = parent(n)
    return n


def enclosing_func(n) -> Optional[ast.FunctionDef]:
    for a in ancestors(n):
        if isinstance(a, (ast.FunctionDef, ast.AsyncFunctionDef)):
            return a
    return None


def walk_local(node) -> Iterator[ast.AST]:
    """ast.walk that does not descend into nested function / class / lambda bodies
    (the nested def node itself is yielded)."""
    stack = [node]
    first = True
    while stack:
        n = stack.pop()
        yield n
        if not first and isinstance(n, (ast.FunctionDef, ast.AsyncFunctionDef, ast.ClassDef, ast.Lambda)):
            continue
        first = False
        stack.extend(reversed(list(ast.iter_child_nodes(n))))


class Program:
    SRC_SUBDIR = os.path.join("src", "pyrtma")

    def __init__(self, root: str = "/repo", extra_dirs: Tuple[str, ...] = ()):
        self.root = os.path.abspath(root)
        self.modules: Dict[str, ModuleInfo] = {}
        self.inlined: Dict[str, List[str]] = {}
        self.pruned: List[str] = []
        self.expansion_errors: List[str] = []
        self.parse_failures: List[str] = []
        src = os.path.join(self.root, self.SRC_SUBDIR)
        if not os.path.isdir(src):
            raise AnalysisError(f"source directory not found: {src}")
        self._load_dir(src, "pyrtma")
        self.extra: Dict[str, ModuleInfo] = {}
        for d in extra_dirs:
            p = os.path.join(self.root, d)
            if os.path.isdir(p):
                self._load_dir(p, d.replace(os.sep, "."), into=self.extra)
        if os.environ.get("SA_NO_INLINE") != "1":
            from . import inline

            # (0) definitions moved to another module and imported back are analysed where they were
            try:
                mv = inline.undo_moves({n: m.tree for n, m in self.modules.items()})
                if mv:
                    self.inlined.setdefault("<moved back>", []).extend(mv)
            except Exception as e:
                self.expansion_errors.append(f"<moves>: {type(e).__name__}: {e}")
            # (0a) methods moved into a new base class / mixin come back into the class that had them
            try:
                mx = inline.undo_mixins({n: m.tree for n, m in self.modules.items()})
                if mx:
                    self.inlined.setdefault("<mixins merged>", []).extend(mx)
            except Exception as e:
                self.expansion_errors.append(f"<mixins>: {type(e).__name__}: {e}")
            # (0b) helpers of modules that did not exist are analysed in the module that imports them
            try:
                pn = inline.pull_in_new_modules({n: m.tree for n, m in self.modules.items()})
                if pn:
                    self.inlined.setdefault("<new modules>", []).extend(pn)
            except Exception as e:
                self.expansion_errors.append(f"<new modules>: {type(e).__name__}: {e}")
            # (0c) required parameters passed by keyword are read in their positions
            try:
                pk = inline.positional_required_arguments({n: m.tree for n, m in self.modules.items()})
                if pk:
                    self.inlined.setdefault("<keyword arguments>", []).extend(pk)
            except Exception as e:
                self.expansion_errors.append(f"<keyword arguments>: {type(e).__name__}: {e}")
            # (1) functions that were merely renamed get their original names back
            try:
                rn = inline.undo_renames({n: m.tree for n, m in self.modules.items()})
                rn += inline.undo_attr_renames({n: m.tree for n, m in self.modules.items()})
                if rn:
                    self.inlined.setdefault("<renamed back>", []).extend(rn)
            except Exception as e:
                self.expansion_errors.append(f"<renames>: {type(e).__name__}: {e}")
            # (1b) locals that merely name an attribute bound once in __init__
            try:
                al = inline.attribute_aliases({n: m.tree for n, m in self.modules.items()})
                if al:
                    self.inlined.setdefault("<attribute aliases>", []).extend(al)
            except Exception as e:
                self.expansion_errors.append(f"<aliases>: {type(e).__name__}: {e}")
            # (2) per module: constants, tables, helper calls
            try:
                inline.set_core_defs(self.modules["pyrtma.core_defs"].tree if "pyrtma.core_defs" in self.modules else None)
                inline.set_program_index({n: m.tree for n, m in self.modules.items()})
            except Exception as e:
                self.expansion_errors.append(f"<index>: {type(e).__name__}: {e}")
            for name, m in self.modules.items():
                try:
                    n_inl, sites = inline.expand_module(m.tree, name)
                except Exception as e:  # a defect of the expander must never take the analysis down: analyse the module as written
                    m.tree = ast.parse(m.source, filename=m.path)
                    n_inl, sites = 0, []
                    self.expansion_errors.append(f"{name}: {type(e).__name__}: {e}")
                if n_inl:
                    self.inlined[name] = sites
            # (3) program wide: new properties / expression methods
            try:
                pr = inline.expand_new_properties({n: m.tree for n, m in self.modules.items()})
                pr += inline.expand_new_expression_methods({n: m.tree for n, m in self.modules.items()})
                if pr:
                    pr += inline.hex_digest_spellings({n: m.tree for n, m in self.modules.items()})
            except Exception as e:
                pr = []
                self.expansion_errors.append(f"<program>: {type(e).__name__}: {e}")
            if pr:
                self.inlined.setdefault("<properties>", []).extend(pr)
        if self.inlined:
            from . import inline

            self.pruned = inline.prune_dead_helpers({n: m.tree for n, m in self.modules.items()})
        for m in list(self.modules.values()) + list(self.extra.values()):
            _set_parents(m.tree)
        self._index()

    # ------------------------------------------------------------------
    def _load_dir(self, base: str, pkg: str, into=None):
        into = self.modules if into is None else into
        for dirpath, dirnames, filenames in os.walk(base):
            dirnames[:] = sorted(d for d in dirnames if d != "__pycache__" and not d.startswith("."))
            for fn in sorted(filenames):
                if not fn.endswith(".py"):
                    continue
                path = os.path.join(dirpath, fn)
                relmod = os.path.relpath(path, base)[:-3].replace(os.sep, ".")
                if relmod.endswith("__init__"):
                    relmod = relmod[: -len("__init__")].rstrip(".")
                name = pkg + ("." + relmod if relmod else "")
                try:
                    with open(path, encoding="utf-8") as f:
                        source = f.read()
                    tree = ast.parse(source, filename=path)
                except (SyntaxError, UnicodeDecodeError, OSError) as e:
                    self.parse_failures.append(f"{path}: {e}")
                    continue
                into[name] = ModuleInfo(
                    name=name, path=path, rel=os.path.relpath(path, self.root), tree=tree, source=source
                )

    def _index(self):
        for m in list(self.modules.values()) + list(self.extra.values()):
            self._index_module(m)

    def _index_module(self, m: ModuleInfo):
        pkg_parts = m.name.split(".")
        is_pkg = m.path.endswith("__init__.py")
        for st in m.tree.body:
            if isinstance(st, ast.Import):
                for a in st.names:
                    m.imports[a.asname or a.name.split(".")[0]] = a.name if a.asname else a.name.split(".")[0]
            elif isinstance(st, ast.ImportFrom):
                if st.level:
                    base = pkg_parts if is_pkg else pkg_parts[:-1]
                    base = base[: len(base) - (st.level - 1)]
                    target = ".".join(base + ([st.module] if st.module else []))
                else:
                    target = st.module or ""
                for a in st.names:
                    m.imports[a.asname or a.name] = f"{target}.{a.name}" if target else a.name
            elif isinstance(st, ast.Assign) and len(st.targets) == 1 and isinstance(st.targets[0], ast.Name):
                m.assigns[st.targets[0].id] = st.value
            elif isinstance(st, ast.AnnAssign) and isinstance(st.target, ast.Name) and st.value is not None:
                m.assigns[st.target.id] = st.value
        self._index_body(m, m.tree.body, None, "")

    def _index_body(self, m: ModuleInfo, body, cls: Optional[ClassInfo], prefix: str):
        for st in body:
            if isinstance(st, (ast.FunctionDef, ast.AsyncFunctionDef)):
                qual = f"{prefix}{st.name}"
                fi = FuncInfo(name=st.name, qual=qual, module=m, node=st, cls=cls)
                # property setters etc. share a name: keep getter under name, others suffixed
                if qual in m.functions:
                    k = 2
                    while f"{qual}#{k}" in m.functions:
                        k += 1
                    fi.qual = f"{qual}#{k}"
                m.functions[fi.qual] = fi
                if cls is not None and st.name not in cls.methods:
                    cls.methods[st.name] = fi
                # nested defs
                for sub in walk_local(st):
                    if sub is not st and isinstance(sub, (ast.FunctionDef, ast.AsyncFunctionDef)):
                        q2 = f"{qual}.<locals>.{sub.name}"
                        if q2 not in m.functions:
                            m.functions[q2] = FuncInfo(name=sub.name, qual=q2, module=m, node=sub, cls=None)
                if cls is not None:
                    for sub in ast.walk(st):
                        if (
                            isinstance(sub, ast.AnnAssign)
                            and isinstance(sub.target, ast.Attribute)
                            and isinstance(sub.target.value, ast.Name)
                            and sub.target.value.id == "self"
                        ):
                            cls.attr_ann.setdefault(sub.target.attr, sub.annotation)
            elif isinstance(st, ast.ClassDef):
                ci = ClassInfo(name=st.name, module=m, node=st, base_exprs=[unparse(b) for b in st.bases])
                m.classes[st.name] = ci
                for s2 in st.body:
                    if isinstance(s2, ast.AnnAssign) and isinstance(s2.target, ast.Name):
                        ci.attr_ann[s2.target.id] = s2.annotation
                        if s2.value is not None:
                            ci.class_consts[s2.target.id] = s2.value
                    elif isinstance(s2, ast.Assign) and len(s2.targets) == 1 and isinstance(s2.targets[0], ast.Name):
                        ci.class_consts[s2.targets[0].id] = s2.value
                self._index_body(m, st.body, ci, f"{st.name}.")
            elif isinstance(st, (ast.If, ast.Try)):
                # module level conditional definitions
                for blk in ("body", "orelse", "finalbody"):
                    self._index_body(m, getattr(st, blk, []), cls, prefix)

    # ------------------------------------------------------------------
    def module(self, name: str) -> ModuleInfo:
        m = self.modules.get(name)
        if m is None:
            raise AnalysisError(f"anchor vanished: module {name}")
        return m

    def func(self, module: str, qual: str) -> FuncInfo:
        m = self.module(module)
        f = m.functions.get(qual)
        if f is None:
            raise AnalysisError(f"anchor vanished: function {module}::{qual}")
        return f

    def cls(self, module: str, name: str) -> ClassInfo:
        m = self.module(module)
        c = m.classes.get(name)
        if c is None:
            raise AnalysisError(f"anchor vanished: class {module}::{name}")
        return c

    def all_functions(self, include_extra=False) -> Iterator[FuncInfo]:
        mods = list(self.modules.values()) + (list(self.extra.values()) if include_extra else [])
        for m in mods:
            yield from m.functions.values()

    def all_classes(self) -> Iterator[ClassInfo]:
        for m in self.modules.values():
            yield from m.classes.values()

    # class hierarchy -------------------------------------------------
    def resolve_class_name(self, m: ModuleInfo, expr: str) -> Optional[ClassInfo]:
        """Resolve a (possibly dotted / imported) class expression written in module m."""
        expr = expr.split("[")[0]
        parts = expr.split(".")
        head = parts[0]
        if len(parts) == 1 and head in m.classes:
            return m.classes[head]
        if head in m.imports:
            target = m.imports[head].split(".") + parts[1:]
            # try module.Class
            for cut in range(len(target) - 1, 0, -1):
                modname = ".".join(target[:cut])
                if modname in self.modules and len(target) - cut == 1:
                    mm = self.modules[modname]
                    cn = target[cut]
                    if cn in mm.classes:
                        return mm.classes[cn]
                    if cn in mm.imports:  # re-export
                        return self.resolve_class_name(mm, cn)
        return None

    def mro(self, c: ClassInfo) -> List[ClassInfo]:
        out, seen = [], set()

        def rec(ci: ClassInfo):
            if ci.key in seen:
                return
            seen.add(ci.key)
            out.append(ci)
            for b in ci.base_exprs:
                bc = self.resolve_class_name(ci.module, b)
                if bc is not None:
                    rec(bc)

        rec(c)
        return out

    def find_method(self, c: ClassInfo, name: str, skip_self=False) -> Optional[FuncInfo]:
        for ci in self.mro(c)[1 if skip_self else 0 :]:
            if name in ci.methods:
                return ci.methods[name]
        return None

    def subclasses(self, c: ClassInfo) -> List[ClassInfo]:
        return [k for k in self.all_classes() if k is not c and c in self.mro(k)]

    def base_names(self, c: ClassInfo) -> List[str]:
        """All base-class names along the MRO, including unresolved external ones."""
        names = []
        for ci in self.mro(c):
            names.append(ci.name)
            for b in ci.base_exprs:
                names.append(b.split(".")[-1].split("[")[0])
        return names

    # constants ---------------------------------------------------------
    def const(self, module: str, name: str):
        m = self.module(module)
        if name not in m.assigns:
            raise AnalysisError(f"anchor vanished: constant {module}.{name}")
        return self.eval_const(m, m.assigns[name])

    def eval_const(self, m: ModuleInfo, e: ast.expr, depth=0):
        if depth > 20:
            raise AnalysisError("constant evaluation too deep")
        if isinstance(e, ast.Constant):
            return e.value
        if isinstance(e, ast.Name):
            if e.id in m.assigns:
                return self.eval_const(m, m.assigns[e.id], depth + 1)
            if e.id in m.imports:
                tgt = m.imports[e.id]
                modname, _, nm = tgt.rpartition(".")
                if modname in self.modules and nm in self.modules[modname].assigns:
                    mm = self.modules[modname]
                    return self.eval_const(mm, mm.assigns[nm], depth + 1)
            raise AnalysisError(f"cannot evaluate constant name {e.id} in {m.name}")
        if isinstance(e, ast.Attribute) and isinstance(e.value, ast.Name) and e.value.id in m.imports:
            tgt = m.imports[e.value.id]
            if tgt in self.modules and e.attr in self.modules[tgt].assigns:
                mm = self.modules[tgt]
                return self.eval_const(mm, mm.assigns[e.attr], depth + 1)
            raise AnalysisError(f"cannot evaluate constant {unparse(e)} in {m.name}")
        if isinstance(e, ast.UnaryOp) and isinstance(e.op, (ast.USub, ast.UAdd)):
            v = self.eval_const(m, e.operand, depth + 1)
            return -v if isinstance(e.op, ast.USub) else v
        if isinstance(e, ast.BinOp):
            l = self.eval_const(m, e.left, depth + 1)
            r = self.eval_const(m, e.right, depth + 1)
            ops = {
                ast.Add: lambda a, b: a + b,
                ast.Sub: lambda a, b: a - b,
                ast.Mult: lambda a, b: a * b,
                ast.FloorDiv: lambda a, b: a // b,
                ast.Div: lambda a, b: a / b,
                ast.Mod: lambda a, b: a % b,
                ast.Pow: lambda a, b: a**b,
                ast.LShift: lambda a, b: a << b,
            }
            f = ops.get(type(e.op))
            if f is None:
                raise AnalysisError(f"unsupported operator in constant {unparse(e)}")
            return f(l, r)
        raise AnalysisError(f"cannot evaluate constant expression {unparse(e)}")

    def module_constants(self, module: str, prefix: str = "") -> Dict[str, object]:
        m = self.module(module)
        out = {}
        for k, v in m.assigns.items():
            if k.startswith(prefix):
                try:
                    out[k] = self.eval_const(m, v)
                except AnalysisError:
                    pass
        return out

    def is_expanded_helper(self, f: FuncInfo) -> bool:
        """f is a helper outside the vocabulary the rules were written against, i.e. one whose calls sa/inline.py expands
        in place wherever that is exact.  Its body is analysed inside its callers; rules that walk *all* functions may
        skip the stand-alone copy when nothing calls it any more."""
        from . import inline

        kf = inline.known_functions()
        return bool(kf) and f.module.name in self.modules and f.qual.split("#")[0] not in kf.get(f.module.name, set()) and ".<locals>." not in f.qual

    def stats(self) -> Dict[str, int]:
        return {
            "modules": len(self.modules),
            "classes": sum(len(m.classes) for m in self.modules.values()),
            "functions": sum(len(m.functions) for m in self.modules.values()),
            "helper_calls_expanded": sum(len(v) for v in self.inlined.values()),
        }
