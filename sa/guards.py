"""Propositional guard logic: decompose branch conditions into atoms and decide
"facts G imply formula F" by truth-table enumeration, with a small built-in
theory (total order on each operand pair, distinct constants, `is None` vs
truthiness, literal membership).  Propositional evaluation, not solving."""
from __future__ import annotations

import ast
import itertools
from typing import Dict, List, Optional, Sequence, Tuple

from .program import AnalysisError, norm, unparse

MAX_ATOMS = 14


class _Subst(ast.NodeTransformer):
    def __init__(self, mapping: Dict[str, ast.expr]):
        self.mapping = mapping

    def visit_Name(self, node):
        if isinstance(node.ctx, ast.Load) and node.id in self.mapping:
            return ast.copy_location(_clone(self.mapping[node.id]), node)
        return node


def _clone(e):
    return ast.parse(unparse(e), mode="eval").body


def subst(e: ast.expr, mapping: Dict[str, ast.expr]) -> ast.expr:
    if not mapping:
        return e
    cur = _clone(e)
    for _ in range(5):
        new = _Subst(mapping).visit(_clone(cur))
        if norm(new) == norm(cur):
            break
        cur = new
    return cur


def parse(text: str) -> ast.expr:
    return ast.parse(text, mode="eval").body


# formula tree: ('and', [..]) ('or', [..]) ('not', f) ('atom', key) ('const', bool)
def to_formula(e: ast.expr, atoms: Dict[str, ast.expr]):
    if isinstance(e, ast.BoolOp):
        op = "and" if isinstance(e.op, ast.And) else "or"
        return (op, [to_formula(v, atoms) for v in e.values])
    if isinstance(e, ast.UnaryOp) and isinstance(e.op, ast.Not):
        return ("not", to_formula(e.operand, atoms))
    if isinstance(e, ast.Constant) and isinstance(e.value, (bool, type(None))):
        return ("const", bool(e.value))
    if isinstance(e, ast.Compare):
        parts = []
        left = e.left
        for op, right in zip(e.ops, e.comparators):
            parts.append(_cmp(left, op, right, atoms))
            left = right
        return parts[0] if len(parts) == 1 else ("and", parts)
    if isinstance(e, ast.Call) and isinstance(e.func, ast.Name) and e.func.id == "bool" and len(e.args) == 1:
        return to_formula(e.args[0], atoms)
    if isinstance(e, ast.Call) and isinstance(e.func, ast.Name) and e.func.id == "isinstance" and len(e.args) == 2 and not e.keywords and isinstance(e.args[1], ast.Tuple) and e.args[1].elts:
        # isinstance(x, (A, B)) is isinstance(x, A) or isinstance(x, B): one atom per class, whichever way it is written
        return ("or", [to_formula(ast.Call(func=e.func, args=[e.args[0], k], keywords=[]), atoms) for k in e.args[1].elts])
    return _atom("T", norm(e), e, atoms)


def _atom(tag, text, e, atoms):
    key = f"{tag}:{text}"
    atoms.setdefault(key, e)
    return ("atom", key)


def _cmp(l, op, r, atoms):
    lt, rt = norm(l), norm(r)
    if isinstance(op, (ast.Eq, ast.NotEq)):
        a, b = sorted([lt, rt])
        f = _atom("EQ", f"{a} == {b}", None, atoms)
        return f if isinstance(op, ast.Eq) else ("not", f)
    if isinstance(op, (ast.Is, ast.IsNot)):
        a, b = sorted([lt, rt])
        f = _atom("IS", f"{a} is {b}", None, atoms)
        return f if isinstance(op, ast.Is) else ("not", f)
    if isinstance(op, (ast.In, ast.NotIn)):
        # literal membership in a literal tuple/list/set is folded into a disjunction of equalities
        if isinstance(r, (ast.Tuple, ast.List, ast.Set)) and r.elts and len(r.elts) <= 12:
            f = ("or", [_cmp(l, ast.Eq(), x, atoms) for x in r.elts])
        else:
            f = _atom("IN", f"{lt} in {rt}", None, atoms)
        return f if isinstance(op, ast.In) else ("not", f)
    if isinstance(op, ast.Lt):
        return _atom("LT", f"{lt} < {rt}", None, atoms)
    if isinstance(op, ast.Gt):
        return _atom("LT", f"{rt} < {lt}", None, atoms)
    if isinstance(op, ast.GtE):  # l >= r  ==  not (l < r)
        return ("not", _atom("LT", f"{lt} < {rt}", None, atoms))
    if isinstance(op, ast.LtE):  # l <= r == not (r < l)
        return ("not", _atom("LT", f"{rt} < {lt}", None, atoms))
    raise AnalysisError(f"unsupported comparison operator {type(op).__name__}")


def evaluate(f, val: Dict[str, bool]) -> bool:
    k = f[0]
    if k == "atom":
        return val[f[1]]
    if k == "const":
        return f[1]
    if k == "not":
        return not evaluate(f[1], val)
    if k == "and":
        return all(evaluate(x, val) for x in f[1])
    if k == "or":
        return any(evaluate(x, val) for x in f[1])
    raise AssertionError(k)


_NUM_CACHE: Dict[str, Optional[float]] = {}


def _is_number(t: str) -> Optional[float]:
    try:
        return _NUM_CACHE[t]
    except KeyError:
        try:
            v = float(t)
        except ValueError:
            v = None
        _NUM_CACHE[t] = v
        return v


INT_THEORY = [False]
_SPLIT_CACHE: Dict[str, tuple] = {}


class int_theory:
    """Context: operands compared with integer literals are integers (ids, sizes, counts)."""

    def __enter__(self):
        self.prev = INT_THEORY[0]
        INT_THEORY[0] = True

    def __exit__(self, *a):
        INT_THEORY[0] = self.prev


def _int_consistent(eqs, lts) -> bool:
    per: Dict[str, list] = {}
    for (a, b), v in lts.items():
        na, nb = _is_number(a), _is_number(b)
        if na is None and nb is not None and nb == int(nb):
            per.setdefault(a, []).append(("lt", int(nb), v))  # x < c
        elif nb is None and na is not None and na == int(na):
            per.setdefault(b, []).append(("gt", int(na), v))  # c < x
    for (a, b), v in eqs.items():
        na, nb = _is_number(a), _is_number(b)
        if na is None and nb is not None and nb == int(nb):
            per.setdefault(a, []).append(("eq", int(nb), v))
        elif nb is None and na is not None and na == int(na):
            per.setdefault(b, []).append(("eq", int(na), v))
    for x, cons in per.items():
        if len(cons) < 2:
            continue
        cands = set()
        for _, c, _v in cons:
            cands |= {c - 1, c, c + 1}
        okx = False
        for cand in cands:
            if all(((cand < c) if k == "lt" else (c < cand) if k == "gt" else (cand == c)) == v for k, c, v in cons):
                okx = True
                break
        if not okx:
            return False
    return True


def _consistent(val: Dict[str, bool], keys: List[str]) -> bool:
    """Built-in theory filter."""
    eqs, lts = {}, {}
    for k in keys:
        sp = _SPLIT_CACHE.get(k)
        if sp is None:
            if k.startswith("EQ:"):
                sp = ("EQ",) + tuple(k[3:].split(" == ", 1))
            elif k.startswith("LT:"):
                sp = ("LT",) + tuple(k[3:].split(" < ", 1))
            else:
                sp = ("X",)
            _SPLIT_CACHE[k] = sp
        if sp[0] == "EQ":
            eqs[(sp[1], sp[2])] = val[k]
        elif sp[0] == "LT":
            lts[(sp[1], sp[2])] = val[k]
    if INT_THEORY[0] and not _int_consistent(eqs, lts):
        return False
    # total order on each operand pair
    for (a, b), v in lts.items():
        if v and lts.get((b, a)):
            return False
        ka = tuple(sorted([a, b]))
        if v and eqs.get(ka):
            return False
        if a == b and v:
            return False
        # trichotomy when all three atoms are present
        if (b, a) in lts and ka in eqs:
            if not (v or lts[(b, a)] or eqs[ka]):
                return False
        # constants
        na, nb = _is_number(a), _is_number(b)
        if na is not None and nb is not None and v != (na < nb):
            return False
    for (a, b), v in eqs.items():
        na, nb = _is_number(a), _is_number(b)
        if na is not None and nb is not None and v != (na == nb):
            return False
        if a == b and not v:
            return False
    # x == c1 and x == c2 with distinct literal constants
    by_operand: Dict[str, List[str]] = {}
    for (a, b), v in eqs.items():
        if not v:
            continue
        for x, c in ((a, b), (b, a)):
            if _is_literal(c) and not _is_literal(x):
                by_operand.setdefault(x, []).append(c)
    for x, cs in by_operand.items():
        if len(set(cs)) > 1:
            return False
    # x == c (numeric) with x < d / d < x
    for (a, b), v in eqs.items():
        if not v:
            continue
        for x, c in ((a, b), (b, a)):
            nc = _is_number(c)
            if nc is None:
                continue
            for (p, q), lv in lts.items():
                if p == x and _is_number(q) is not None and lv != (nc < _is_number(q)):
                    return False
                if q == x and _is_number(p) is not None and lv != (_is_number(p) < nc):
                    return False
    # `x is None` true -> truthiness atom of x false
    for k in keys:
        if k.startswith("IS:") and val[k]:
            a, b = k[3:].split(" is ", 1)
            other = a if b == "None" else (b if a == "None" else None)
            if other is not None and val.get(f"T:{other}"):
                return False
    return True


def _is_literal(t: str) -> bool:
    if _is_number(t) is not None:
        return True
    return (t[:1] in "'\"" and t[-1:] in "'\"") or t in ("None", "True", "False")


def implies(facts: Sequence[Tuple[ast.expr, bool]], goal: ast.expr, mapping: Dict[str, ast.expr] = None) -> bool:
    """Do the facts (expr, polarity) imply `goal`?  `mapping` is a copy-propagation
    substitution applied to both sides."""
    atoms: Dict[str, ast.expr] = {}
    mapping = mapping or {}
    gf = to_formula(subst(goal, mapping), atoms)
    goal_atoms = set(atoms)
    ffs = []
    for e, pol in facts:
        f = to_formula(subst(e, mapping), atoms)
        ffs.append(f if pol else ("not", f))
    # drop facts sharing no atom (and no operand text) with anything relevant: keep table small
    # facts that share no atom / operand (transitively) with the goal cannot help to prove it
    rel = _relevant(ffs, gf, goal_atoms)
    ffs = [f for f in ffs if _atoms_of(f) & rel]
    keys = sorted(rel | goal_atoms)
    fixed = _unit_literals(ffs)
    if fixed is None:
        return True  # contradictory facts imply anything
    fixed = {k: v for k, v in fixed.items() if k in keys}
    free = [k for k in keys if k not in fixed]
    if len(free) > MAX_ATOMS:
        raise AnalysisError(f"too many guard atoms ({len(free)}) for goal {unparse(goal)}")
    for bits in itertools.product((False, True), repeat=len(free)):
        val = dict(fixed)
        val.update(zip(free, bits))
        if not _consistent(val, keys):
            continue
        if all(evaluate(f, val) for f in ffs) and not evaluate(gf, val):
            return False
    return True


def satisfiable(facts: Sequence[Tuple[ast.expr, bool]], mapping=None) -> bool:
    atoms: Dict[str, ast.expr] = {}
    ffs = []
    for e, pol in facts:
        f = to_formula(subst(e, mapping or {}), atoms)
        ffs.append(f if pol else ("not", f))
    keys = sorted(atoms)
    fixed = _unit_literals(ffs)
    if fixed is None:
        return False  # a literal and its negation
    free = [k for k in keys if k not in fixed]
    if len(free) > MAX_ATOMS:
        return True
    for bits in itertools.product((False, True), repeat=len(free)):
        val = dict(fixed)
        val.update(zip(free, bits))
        if _consistent(val, keys) and all(evaluate(f, val) for f in ffs):
            return True
    return False


def _unit_literals(ffs) -> Optional[Dict[str, bool]]:
    """atoms whose value the conjunction of ffs fixes directly (facts that are a literal, conjunctions of literals);
    None when two of them contradict.  Enumeration then only ranges over the remaining atoms."""
    fixed: Dict[str, bool] = {}

    def visit(f, pol) -> bool:
        k = f[0]
        if k == "atom":
            if fixed.setdefault(f[1], pol) != pol:
                return False
        elif k == "not":
            return visit(f[1], not pol)
        elif (k == "and" and pol) or (k == "or" and not pol):
            return all(visit(x, pol) for x in f[1])
        return True

    for f in ffs:
        if not visit(f, True):
            return None
    return fixed


def _atoms_of(f) -> set:
    if f[0] == "atom":
        return {f[1]}
    if f[0] == "const":
        return set()
    if f[0] == "not":
        return _atoms_of(f[1])
    s = set()
    for x in f[1]:
        s |= _atoms_of(x)
    return s


def _operands(key: str) -> set:
    body = key.split(":", 1)[1]
    for sep in (" == ", " < ", " in ", " is "):
        if sep in body:
            return set(body.split(sep, 1))
    return {body}


def _relevant(ffs, gf, goal_atoms) -> set:
    rel = set(goal_atoms)
    ops = set()
    for k in rel:
        ops |= _operands(k)
    changed = True
    while changed:
        changed = False
        for f in ffs:
            at = _atoms_of(f)
            if at & rel or any(_operands(k) & ops for k in at):
                new = at - rel
                if new:
                    rel |= new
                    for k in new:
                        ops |= _operands(k)
                    changed = True
    return rel


def any_path_implies(paths, goal: ast.expr, mapping=None) -> List[int]:
    """Indices of path conjunctions that do NOT imply the goal (empty == all imply)."""
    bad = []
    for i, facts in enumerate(paths):
        if not satisfiable(facts, mapping):
            continue  # infeasible path
        if not implies(facts, goal, mapping):
            bad.append(i)
    return bad


def copy_map(func: ast.FunctionDef, pure_calls: Sequence[str] = ()) -> Dict[str, ast.expr]:
    """Locals assigned exactly once in `func` from a pure access path / constant
    (`dest_mod_id = header.dest_mod_id`): name -> defining expression."""
    from .program import walk_local

    count: Dict[str, int] = {}
    rhs: Dict[str, ast.expr] = {}

    def bump(t, v=None):
        if isinstance(t, ast.Name):
            count[t.id] = count.get(t.id, 0) + 1
            if v is not None:
                rhs[t.id] = v
        elif isinstance(t, (ast.Tuple, ast.List)):
            for x in t.elts:
                bump(x)
        elif isinstance(t, ast.Starred):
            bump(t.value)

    params = {a.arg for a in func.args.posonlyargs + func.args.args + func.args.kwonlyargs}
    for n in walk_local(func):
        if isinstance(n, ast.Assign):
            for t in n.targets:
                bump(t, n.value if len(n.targets) == 1 else None)
        elif isinstance(n, ast.AnnAssign) and n.value is not None:
            bump(n.target, n.value)
        elif isinstance(n, ast.AugAssign):
            bump(n.target)
            bump(n.target)
        elif isinstance(n, (ast.For, ast.AsyncFor)):
            bump(n.target)
            bump(n.target)
        elif isinstance(n, ast.NamedExpr):
            bump(n.target)
            bump(n.target)
        elif isinstance(n, (ast.With, ast.AsyncWith)):
            for it in n.items:
                if it.optional_vars is not None:
                    bump(it.optional_vars)
                    bump(it.optional_vars)
        elif isinstance(n, ast.ExceptHandler) and n.name:
            count[n.name] = count.get(n.name, 0) + 2
    out = {}
    for name, c in count.items():
        if c == 1 and name in rhs and name not in params and _pure_path(rhs[name]):
            out[name] = rhs[name]
        elif c == 1 and name in rhs and name not in params and pure_calls and isinstance(rhs[name], ast.Call) and isinstance(rhs[name].func, ast.Name) \
                and rhs[name].func.id in pure_calls and len(rhs[name].args) == 1 and not rhs[name].keywords and _pure_path(rhs[name].args[0]):
            out[name] = rhs[name]  # `int_value = int(value)`: a pure conversion of a pure path
    return out


def _pure_path(e) -> bool:
    if isinstance(e, ast.Constant):
        return True
    if isinstance(e, ast.Name):
        return True
    if isinstance(e, ast.Attribute):
        return _pure_path(e.value)
    # a condition computed into a local (`eligible = dest == 0 or m.mod_id == dest`): boolean structure over pure paths
    if isinstance(e, ast.BoolOp):
        return all(_pure_path(v) for v in e.values)
    if isinstance(e, ast.UnaryOp) and isinstance(e.op, ast.Not):
        return _pure_path(e.operand)
    if isinstance(e, ast.Compare):
        return _pure_path(e.left) and all(_pure_path(c) for c in e.comparators)
    return False


class _Fold(ast.NodeTransformer):
    def __init__(self, resolver):
        self.resolver = resolver

    def visit_Attribute(self, node):
        v = self.resolver(node)
        if v is not None and isinstance(v, (int, float, str)) and not isinstance(v, bool):
            return ast.copy_location(ast.Constant(value=v), node)
        return self.generic_visit(node)

    def visit_Name(self, node):
        if isinstance(node.ctx, ast.Load):
            v = self.resolver(node)
            if v is not None and isinstance(v, (int, float, str)) and not isinstance(v, bool):
                return ast.copy_location(ast.Constant(value=v), node)
        return node


def fold_consts(e: ast.expr, resolver) -> ast.expr:
    """Replace references to known module constants (cd.MT_X, ALL_MESSAGE_TYPES) by literals."""
    return ast.fix_missing_locations(_Fold(resolver).visit(_clone(e)))
