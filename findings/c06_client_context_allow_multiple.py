"""Triage reproduction for C06-A: client_context(allow_multiple=True) must reach the manager as allow_multiple.

History: two clients enter client_context(module_id=11, allow_multiple=True) at the same time.
Expected: both are admitted (both declared multiple instances).  Pinned tree: the flag is passed
positionally into `daemon_status`, both register as unique, the second is refused (no ACK).
exit 0 = property holds."""
import sys, threading, time, socket
from pyrtma.manager import MessageManager
from pyrtma.client import client_context
from pyrtma.exceptions import AcknowledgementTimeout, ConnectionLost

s = socket.socket(); s.bind(("127.0.0.1", 0)); port = s.getsockname()[1]; s.close()
mm = MessageManager("127.0.0.1", port, debug=True, send_msg_timing=False)
t = threading.Thread(target=mm.run, daemon=True); t.start()
time.sleep(0.3)
ok = True
try:
    with client_context(module_id=11, server_name=f"127.0.0.1:{port}", allow_multiple=True) as a:
        mods = [m for m in mm.modules.values() if m.mod_id == 11]
        print("first instance: unique =", mods[0].unique, "is_daemon =", mods[0].is_daemon)
        ok &= (mods[0].unique is False) and (mods[0].is_daemon is False)
        try:
            with client_context(module_id=11, server_name=f"127.0.0.1:{port}", allow_multiple=True) as b:
                print("second instance admitted")
        except (AcknowledgementTimeout, ConnectionLost) as e:
            print("second instance refused:", type(e).__name__); ok = False
finally:
    mm.close()
sys.exit(0 if ok else 1)
