"""Triage reproduction for C17-S with a forced schedule (exit 0 = property holds).

Schedule (hold point = inside the writer's write_finished.set(), i.e. between its two signals on the pinned tree):
  recorder: update(m1) -> flush #1 (stage, clear finished, set token)
  writer  : writes m1, write_to_disk.clear(), ... HELD before write_finished.set() takes effect
  recorder: update(m2) -> token is clear, so flush #2: stage [m2], write_finished.clear(), write_to_disk.set()
  writer  : RELEASED -> late write_finished.set() now reports hand-off #2 as finished
  recorder: stop(): token set -> waits on write_finished -> already set (stale) -> clears token, restages: wbuf=[m2] is
            overwritten before the writer served it -> m2 is lost.
With the repaired order (set finished, then clear token) the hold point lies before the token is released, the recorder
cannot start flush #2 in that window, and both messages reach the file."""
import os, sys, tempfile, shutil, threading, time
import pyrtma, pyrtma.core_defs as cd
from pyrtma.message import Message
from pyrtma.data_logger.data_collection import DataCollection
from pyrtma.data_logger.data_set import DataSet
from pyrtma.data_logger.metadata import LoggingMetadata
from pyrtma.data_logger.formatters.raw import RawFormatter

class HeldEvent(threading.Event):
    """Event whose first set() call stops at a hold point until released."""
    def __init__(self):
        super().__init__(); self.at_hold = threading.Event(); self.release = threading.Event(); self.first = True
    def set(self):
        if self.first:
            self.first = False; self.at_hold.set(); self.release.wait(5)
        super().set()

class HeldWait(threading.Event):
    """Event whose wait() stops at a second hold point (the top of the writer loop) when armed."""
    def __init__(self):
        super().__init__(); self.armed = False; self.at_hold = threading.Event(); self.release = threading.Event()
    def wait(self, timeout=None):
        if self.armed and threading.current_thread() is not threading.main_thread():
            self.armed = False; self.at_hold.set(); self.release.wait(5)
        return super().wait(timeout)

d = tempfile.mkdtemp(prefix="c17-")
try:
    md = LoggingMetadata()
    dc = DataCollection("c", d, "run", md)
    dc.write_finished = HeldEvent()
    dc.write_to_disk = HeldWait()
    ds = DataSet("c", "raw", "", "data", RawFormatter, 0, [cd.ALL_MESSAGE_TYPES], md)
    dc.add_data_set(ds)
    dc.start()
    def msg(i):
        h = pyrtma.get_header_cls()(); p = cd.MDF_MODULE_READY(); p.pid = i; h.msg_type = p.type_id; h.num_data_bytes = p.type_size
        return Message(h, p)
    frame = len(bytes(msg(0).header)) + len(bytes(msg(0).data))
    dc.next_write = -1.0                      # deadline passed: update() flushes
    dc.update(msg(1))                         # flush #1
    assert dc.write_finished.at_hold.wait(5), "writer never reached the hold point"
    token_released_at_hold = not dc.write_to_disk.is_set()
    dc.next_write = -1.0
    dc.update(msg(2))                         # flush #2 only possible if the token was already released
    dc.write_to_disk.armed = True             # second hold point: top of the writer loop, after its two signals
    dc.write_finished.release.set()           # writer continues: (late) write_finished.set()
    assert dc.write_to_disk.at_hold.wait(5), "writer never reached the second hold point"
    dc.stop()                                 # runs while the writer sits at the top of its loop
    dc.write_to_disk.release.set()
    dc.close()
    size = os.path.getsize(ds.file_path)
    print(f"token already released at the hold point: {token_released_at_hold}; frames handed to update: 2; frames in file: {size // frame}")
    sys.exit(0 if size == 2 * frame else 1)
finally:
    shutil.rmtree(d, ignore_errors=True)
