"""Triage reproduction for C09-I (exit 0 = property holds).

With validation on, `msg.struct_array[i] = ()` is accepted: StructArray.__setitem__ picks the validator by the SHAPE OF THE
VALUE (an iterable goes to validate_many, which an empty sequence passes vacuously) instead of by the key, and ctypes then
builds a default (all-zero) structure from the empty tuple.  A value of a wrong type is stored (as zeros) and what is read
back is not what was assigned."""
import sys
import pyrtma.core_defs as cd

bad = 0
target = None
for name in dir(cd):
    c = getattr(cd, name)
    if isinstance(c, type) and hasattr(c, "_fields_") and not name.startswith("_"):
        try:
            inst = c()
        except Exception:
            continue
        for attr in dir(c):
            if attr.startswith("_"):
                continue
            try:
                v = getattr(inst, attr)
            except Exception:
                continue
            if type(v).__name__ == "StructArray":
                target = (c, attr)
                break
    if target:
        break
if target is None:
    print("no struct array field in the core definitions: nothing to show")
    sys.exit(0)
cls, attr = target
msg = cls()
arr = getattr(msg, attr)
elem = arr[0]
# make element 0 recognisably non-zero through its first integer field
fld = next(f for f, t in type(elem)._fields_ if isinstance(getattr(t, "_type_", None), str) and t._type_ in "bBhHiIlLqQ")
setattr(arr[0], fld.lstrip("_"), 7)
before = bytes(msg)
try:
    arr[0] = ()
    after = bytes(msg)
    if after != before:
        print(f"{cls.__name__}.{attr}[0] = () accepted with validation on; {sum(a != b for a, b in zip(before, after))} byte(s) of the message changed (element zeroed)")
        bad += 1
    else:
        print("accepted but nothing changed")
except (TypeError, ValueError) as e:
    print("refused:", type(e).__name__)
sys.exit(1 if bad else 0)
