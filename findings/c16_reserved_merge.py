"""Triage reproduction for C16-Y (exit 0 = property holds).

Input: root.yaml imports part.yaml; both carry a `_RESERVED_` entry in message_defs (the one name
exempt from duplicate detection).  Compile with --combined, then recompile the combined YAML.
Expected: the same message ids.  Pinned tree: yaml_dict['message_defs'].update() keeps only the last
`_RESERVED_` key, so the combined file loses the imported file's reserved ids."""
import os, sys, tempfile, shutil, pathlib, io, contextlib
from pyrtma.parser import Parser
from pyrtma.compilers.yaml import YAMLCompiler
d = tempfile.mkdtemp(prefix="c16-")
try:
    open(os.path.join(d, "part.yaml"), "w").write("message_defs:\n  _RESERVED_:\n    id: [1000, 1001]\n  A:\n    id: 1002\n    fields: null\n")
    open(os.path.join(d, "root.yaml"), "w").write("imports:\n  - part.yaml\nmessage_defs:\n  _RESERVED_:\n    id: [2000]\n  B:\n    id: 2001\n    fields: null\n")
    cwd = os.getcwd()
    with contextlib.redirect_stderr(io.StringIO()):
        p = Parser(); p.parse(pathlib.Path(d) / "root.yaml")
        ids1 = sorted(m.value for m in p.message_ids.values() if m.value >= 1000)
        YAMLCompiler(p, "root").generate(pathlib.Path(d) / "root_combined.yaml")
        q = Parser(import_coredefs=False); q.parse(pathlib.Path(d) / "root_combined.yaml")
        ids2 = sorted(m.value for m in q.message_ids.values() if m.value >= 1000)
    os.chdir(cwd)
    print("original ids :", ids1); print("recompiled ids:", ids2)
    sys.exit(0 if ids1 == ids2 else 1)
finally:
    shutil.rmtree(d, ignore_errors=True)
