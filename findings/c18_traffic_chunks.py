"""Triage reproduction for C18-K (exit 0 = property holds).

History: within one reporting interval the manager forwards messages of N distinct types (N = 1, 64, 65, 130).
send_traffic() is then called on the real MessageManager with its transport (send_message) replaced by a
recorder.  Expected: the sub-messages together list every type exactly once with its exact count.
Pinned tree: the in-loop flush fires on the FIRST slot of each chunk (n % 64 == 0) and the tail flush always
fires, so the first type of the last chunk is reported twice; msg_count is not reset in the tail."""
import sys, socket, collections
from pyrtma.manager import MessageManager
from pyrtma.validators import disable_message_validation
import pyrtma.core_defs as cd
s = socket.socket(); s.bind(("127.0.0.1", 0)); port = s.getsockname()[1]; s.close()
mm = MessageManager("127.0.0.1", port, debug=True, send_msg_timing=False)
bad = 0
for N in (1, 64, 65, 130):
    mm.traffic_counter.clear()
    for t in range(N):
        mm.traffic_counter[1000 + t] = t + 1
    subs = []
    mm.send_message = lambda data, *a, **k: subs.append((list(data.msg_type[:]), list(data.msg_count[:]), data.sub_seqno))
    with disable_message_validation():   # as in MessageManager.run()
        mm.send_traffic()
    seen = collections.Counter(); wrong = 0
    for types, counts, _ in subs:
        for t, c in zip(types, counts):
            if t >= 1000:
                seen[t] += 1; wrong += (c != t - 999)
            elif c != 0:
                wrong += 1        # a count attributed to a slot that holds no type of this interval
    dup = [t for t, k in seen.items() if k > 1]; missing = [1000 + t for t in range(N) if 1000 + t not in seen]
    print(f"N={N:3d}: {len(subs)} sub-message(s) sub_seqno={[x[2] for x in subs]} duplicated={dup} missing={missing} wrong_counts={wrong}")
    bad += bool(dup or missing or wrong)
mm.listen_socket.close()
sys.exit(1 if bad else 0)
