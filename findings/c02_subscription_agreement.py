"""Triage reproduction for C02 (three histories against the real code; exit 0 = property holds).

H1  subscribe([ALL]) twice: the manager's second ALL-subscribe adds the module and then discards it again
    while clearing Module.subs (which contains ALL) -> the manager no longer delivers anything.
H2  subscription_context([a, b]) entered with a and b already subscribed: removing from the list while
    iterating skips b, b is 'subscribed' by the context and unsubscribed on exit.
H3  subscription_context([b]) entered with b paused: on exit b is neither subscribed nor paused.
"""
import sys, threading, time, socket, warnings
from pyrtma.manager import MessageManager
from pyrtma.client import Client
import pyrtma.core_defs as cd
warnings.simplefilter("ignore")
s = socket.socket(); s.bind(("127.0.0.1", 0)); port = s.getsockname()[1]; s.close()
mm = MessageManager("127.0.0.1", port, debug=True, send_msg_timing=False)
threading.Thread(target=mm.run, daemon=True).start(); time.sleep(0.3)
srv = f"127.0.0.1:{port}"
bad = 0
def mgr_view(c):
    time.sleep(0.3)
    m = [m for m in mm.modules.values() if m.mod_id == c.module_id][0]
    return sorted(t for t, mods in mm.subscriptions.items() if m in mods)
A, B = 1234, 1235
c = Client(); c.connect(srv)
c.subscribe([cd.ALL_MESSAGE_TYPES]); c.subscribe([cd.ALL_MESSAGE_TYPES])
v = mgr_view(c); print("H1 client sub_all:", c._sub_all, " manager registrations:", v); bad += (v != [cd.ALL_MESSAGE_TYPES])
c.disconnect()
c = Client(); c.connect(srv); c.subscribe([A, B])
with c.subscription_context([A, B]): pass
v = mgr_view(c); print("H2 client:", sorted(c.subscribed_types), " manager:", v); bad += (sorted(c.subscribed_types) != [A, B] or v != [A, B])
c.disconnect()
c = Client(); c.connect(srv); c.subscribe([A, B]); c.pause_subscription([B])
with c.subscription_context([B]): pass
v = mgr_view(c); print("H3 client sub:", sorted(c.subscribed_types), "paused:", sorted(c.paused_subscribed_types), " manager:", v)
bad += (sorted(c.subscribed_types) != [A] or sorted(c.paused_subscribed_types) != [B] or v != [A])
c.disconnect(); mm.close()
sys.exit(1 if bad else 0)
