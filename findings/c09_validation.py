"""Triage reproduction for C09-C and C09-Q (exit 0 = property holds).

H1  a disable_message_validation() block left through an exception leaves validation off for good.
H2  FloatValidatorBase.validate_many uses max()/min(): next to NaN the order statistic is position
    dependent, so [nan, 1e300, 0.0] is accepted into a float32 array (stored as inf)."""
import sys, math
from pyrtma.validators import disable_message_validation
import pyrtma.core_defs as cd
bad = 0
m = cd.MDF_CONNECT_V2()
try:
    with disable_message_validation():
        raise KeyError("boom")
except KeyError:
    pass
try:
    m.logger_status = 10**9   # int16 field: must be refused when validation is on
    print("H1: out-of-range value accepted after the block -> validation still off"); bad += 1
except ValueError:
    print("H1: validation back on")
from pyrtma.validators import _VALIDATION_ENABLED
_VALIDATION_ENABLED.set(True)
t = cd.MDF_LM_STATUS() if hasattr(cd, "MDF_LM_STATUS") else None
# find a float array field in the core defs
target = None
for name in dir(cd):
    c = getattr(cd, name)
    if isinstance(c, type) and name.startswith("MDF_"):
        for fname, ftype in getattr(c, "_fields_", []):
            if hasattr(ftype, "_length_") and getattr(ftype, "_type_", None).__name__ in ("c_float",) and ftype._length_ >= 3:
                target = (c, fname.lstrip("_"), ftype._length_); break
    if target: break
if target is None:
    from pyrtma.validators import Float
    v = Float()
    try:
        v.validate_many([float("nan"), 1e300, 0.0]); print("H2: [nan, 1e300, 0.0] accepted by Float.validate_many"); bad += 1
    except ValueError:
        print("H2: refused")
else:
    c, f, n = target
    o = c()
    try:
        setattr(o, f, [float("nan"), 1e300] + [0.0] * (n - 2))
        print("H2: accepted, stored", list(getattr(o, f))[:2]); bad += 1
    except ValueError:
        print("H2: refused")
sys.exit(1 if bad else 0)
