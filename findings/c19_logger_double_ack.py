"""Triage reproduction for C19-X (exit 0 = property holds): a module that connected as a logger must get exactly
one ACKNOWLEDGE per control frame on its own connection."""
import sys, threading, time, socket
from pyrtma.manager import MessageManager
from pyrtma.client import Client
import pyrtma.core_defs as cd
s = socket.socket(); s.bind(("127.0.0.1", 0)); port = s.getsockname()[1]; s.close()
mm = MessageManager("127.0.0.1", port, debug=True, send_msg_timing=False)
threading.Thread(target=mm.run, daemon=True).start(); time.sleep(0.3)
c = Client(); c.connect(f"127.0.0.1:{port}", logger_status=True)
time.sleep(0.2)
while c.read_message(timeout=0.2, ack=True) is not None: pass          # drain handshake traffic
c.subscribe([1234]); time.sleep(0.3)
acks = 0
while True:
    m = c.read_message(timeout=0.3, ack=True)
    if m is None: break
    acks += (m.header.msg_type == cd.MT_ACKNOWLEDGE)
print("ACKNOWLEDGE frames received for one SUBSCRIBE:", acks)
c.disconnect(); mm.close()
sys.exit(0 if acks == 1 else 1)
