"""Reproduction of the C10 defect repaired by /repo commit 4106d83 (rule C10-C, receiver of from_buffer_copy).

`Message.copy(m)` evaluated `m.data.from_buffer_copy(m.data)`.  ctypes puts from_buffer_copy on the structure
*class* (its metatype), not on instances, so every call raised AttributeError - there was no way to copy a
Message - and the header was always rebuilt as a plain MessageHeader, which would have truncated a
TimeCodeMessageHeader.  Run with PYTHONPATH=/repo/src (or the package installed):

    before the fix: prints the AttributeError for both header layouts, exit 1
    after the fix : copies are byte-identical, of the same classes, and share no storage, exit 0

Not part of any registered check (those decide from the source only)."""
import sys

from pyrtma import core_defs as cd
from pyrtma.header import MessageHeader, TimeCodeMessageHeader
from pyrtma.message import Message

bad = 0
for H in (MessageHeader, TimeCodeMessageHeader):
    h = H()
    h.msg_type = cd.MT_FAILED_MESSAGE
    d = cd.MDF_FAILED_MESSAGE()
    d.dest_mod_id = 7
    m = Message(h, d)
    try:
        c = Message.copy(m)
    except Exception as e:  # noqa: BLE001
        print(f"{H.__name__}: Message.copy raises {type(e).__name__}: {e}")
        bad += 1
        continue
    same = type(c.header) is H and bytes(c.header) == bytes(h) and bytes(c.data) == bytes(d)
    c.data.dest_mod_id = 9
    c.header.msg_type = 1
    independent = d.dest_mod_id == 7 and h.msg_type == cd.MT_FAILED_MESSAGE
    print(f"{H.__name__}: identical={same} independent={independent}")
    bad += (not same) + (not independent)
sys.exit(1 if bad else 0)
