"""Triage reproductions for C03 (exit 0 = no exception escapes).  Real MessageManager code, fake client
connections; every call below is one that run() makes outside any handler that would catch the exception
(run() only catches ConnectionError around read_message and ValueError around accept), so an escaping
exception ends the manager for every client."""
import sys, socket, ctypes, select as _select
import pyrtma.core_defs as cd
from pyrtma.manager import MessageManager, Module
from pyrtma.validators import disable_message_validation

class FakeConn:
    n = 0
    def __init__(self, fail=False, data=b""):
        FakeConn.n += 1; self.id = FakeConn.n; self.fail = fail; self.data = bytearray(data); self.closed = False; self.sent = []
    def fileno(self): return 1000 + self.id
    def sendall(self, b):
        if self.closed: raise OSError(9, "Bad file descriptor")
        if self.fail: raise BrokenPipeError("peer gone")
        self.sent.append(bytes(b))
    def recv_into(self, buf, n=0, flags=0):
        if n < 0 or n > len(buf): raise ValueError("negative buffersize in recv_into" if n < 0 else "buffer too small for requested bytes")
        k = min(n, len(self.data)); buf[:k] = self.data[:k]; del self.data[:k]; return k
    def close(self): self.closed = True
    def __hash__(self): return self.id

def manager():
    s = socket.socket(); s.bind(("127.0.0.1", 0)); port = s.getsockname()[1]; s.close()
    mm = MessageManager("127.0.0.1", port, debug=True, send_msg_timing=True)
    return mm
def add(mm, mod_id, fail=False, logger=False, data=b""):
    c = FakeConn(fail, data); m = Module(mm.generate_uid(), c, ("127.0.0.1", 50000 + c.id), mm.header_cls, mod_id=mod_id, connected=True, is_logger=logger)
    mm.modules[c] = m; mm.wlist.append(c)
    if logger: mm.logger_modules.add(m)
    return m
def hdr(mm, **kw):
    h = mm.header_cls()
    for k, v in kw.items(): setattr(h, k, v)
    return h
results = {}
def case(name, fn):
    mm = manager()
    try:
        with disable_message_validation():
            fn(mm)
        results[name] = "ok"
    except ConnectionError as e:
        results[name] = "ok (ConnectionError is handled by run())"
    except BaseException as e:
        results[name] = f"ESCAPES {type(e).__name__}: {str(e)[:70]}"
    finally:
        mm.listen_socket.close()

# T: declared payload length outside the receive buffer
def t_len(mm, n):
    m = add(mm, 11, data=bytes(hdr(mm, msg_type=1234, num_data_bytes=n)))
    mm.read_message(m.conn)
case("T recv size: num_data_bytes = -1", lambda mm: t_len(mm, -1))
case("T recv size: num_data_bytes = 2 MiB", lambda mm: t_len(mm, 2 * 1024 ** 2))
# T: message type outside the timing table
def t_timing(mm):
    src = add(mm, 11)
    mm.forward_message(src, hdr(mm, msg_type=20000, src_mod_id=11), b"")
    mm.send_timing_message()
case("T timing index: msg_type = 20000", t_timing)
# T: non-ASCII module name
def t_name(mm):
    m = add(mm, 0); m.connected = False
    p = cd.MDF_CONNECT_V2(); ctypes.memmove(ctypes.addressof(p) + cd.MDF_CONNECT_V2._name.offset, b"\xff\xfe", 2)
    h = hdr(mm, msg_type=cd.MT_CONNECT_V2, num_data_bytes=p.type_size)
    mm.header_buffer[:] = bytes(h); mm.data_buffer[: p.type_size] = bytes(p)
    mm.process_message(m)
case("T decode: CONNECT_V2 name = b'\\xff\\xfe'", t_name)
# B/T: more connections than MAX_ACTIVE_CLIENTS
def t_clients(mm):
    for i in range(300): add(mm, 0)
    mm.send_active_clients()
case("T clients index: 300 connections", t_clients)
# M: a logger fails while the manager iterates logger_modules
def m_loggers(mm):
    add(mm, 20, logger=True); add(mm, 21, fail=True, logger=True); add(mm, 22, logger=True)
    mm.send_to_loggers(hdr(mm, msg_type=cd.MT_ACKNOWLEDGE), b"")
case("M send_to_loggers: one logger write fails", m_loggers)
def m_active(mm):
    add(mm, 20); add(mm, 21, fail=True).subs.add(cd.MT_CLIENT_INFO); add(mm, 22)
    [mm.subscriptions[cd.MT_CLIENT_INFO].add(m) for m in mm.modules.values() if m.mod_id == 21]
    mm.send_active_clients()
case("M send_active_clients: a CLIENT_INFO subscriber fails", m_active)
# U: two subscribers of the same message fail; the first failure's FAILED_MESSAGE goes to the second, which is removed
def u_forward(mm):
    src = add(mm, 10); a = add(mm, 21, fail=True); b = add(mm, 22, fail=True)
    for m in (a, b):
        for t in (1234, cd.MT_FAILED_MESSAGE):
            m.subs.add(t); mm.subscriptions[t].add(m)
    mm.forward_message(src, hdr(mm, msg_type=1234, src_mod_id=10), b"")
case("U forward_message: two failing subscribers (second also subscribed to FAILED_MESSAGE)", u_forward)
bad = 0
for k, v in results.items():
    print(f"{k:90s} {v}"); bad += v.startswith("ESCAPES")
sys.exit(1 if bad else 0)
