"""Triage reproduction (documentation, not a check) for C08-L.

History: the server resets the connection (RST) while the client is blocked in
read_message.  Expected by C08: ConnectionLost is raised AND the client is in
the disconnected state.  On the pinned tree (before the fix) `connected` stays
True after the first ConnectionLost, and a reset during the drain of an
undecodable frame escapes as a raw ConnectionResetError.
Run: /venv/bin/python findings/c08_connection_lost_flag.py   (exit 0 = property holds)
"""
import socket, struct, sys, time
from pyrtma.client import Client
from pyrtma.exceptions import ConnectionLost
import pyrtma.core_defs as cd

def server():
    s = socket.socket(); s.bind(("127.0.0.1", 0)); s.listen(1)
    return s

def rst_close(conn):
    conn.setsockopt(socket.SOL_SOCKET, socket.SO_LINGER, struct.pack("ii", 1, 0))
    conn.close()

bad = 0
# case 1: RST while waiting for a header
srv = server(); c = Client(); c._socket_connect("127.0.0.1:%d" % srv.getsockname()[1])
conn, _ = srv.accept(); c._sock.sendall(b"x" * 10); time.sleep(0.05); rst_close(conn); time.sleep(0.05)
try:
    c.read_message(timeout=None)
    print("case1: no exception"); bad += 1
except ConnectionLost:
    print("case1: ConnectionLost, connected =", c.connected); bad += c.connected
except Exception as e:
    print("case1: raw", type(e).__name__); bad += 1
# case 2: RST during the drain of an unknown-type frame
srv = server(); c = Client(); c._socket_connect("127.0.0.1:%d" % srv.getsockname()[1])
conn, _ = srv.accept()
h = c.header_cls(); h.msg_type = 9999; h.num_data_bytes = 64
conn.sendall(bytes(h)); c._sock.sendall(b"x" * 10); time.sleep(0.05); rst_close(conn); time.sleep(0.05)
c._sub_all = True
try:
    c.read_message(timeout=None)
    print("case2: no exception"); bad += 1
except ConnectionLost:
    print("case2: ConnectionLost, connected =", c.connected); bad += c.connected
except Exception as e:
    print("case2:", type(e).__name__, "connected =", c.connected); bad += 1
sys.exit(1 if bad else 0)
