"""Triage reproduction for C13-S (exit 0 = property holds): the version hash of a definition is the value senders place
in the version field of EVERY outgoing header - also for signals sent with send_signal()."""
import sys, threading, time, socket
from pyrtma.manager import MessageManager
from pyrtma.client import Client
import pyrtma.core_defs as cd
s = socket.socket(); s.bind(("127.0.0.1", 0)); port = s.getsockname()[1]; s.close()
mm = MessageManager("127.0.0.1", port, debug=True, send_msg_timing=False)
threading.Thread(target=mm.run, daemon=True).start(); time.sleep(0.3)
a, b = Client(), Client(); a.connect(f"127.0.0.1:{port}"); b.connect(f"127.0.0.1:{port}")
b.subscribe([cd.MT_EXIT]); time.sleep(0.2)
a.send_signal(cd.MT_EXIT)
m = b.read_message(timeout=2, sync_check=True)
print("EXIT signal received with version 0x%08X, local type_hash 0x%08X" % (m.header.version, cd.MDF_EXIT.type_hash))
ok = m.header.version == cd.MDF_EXIT.type_hash
a.disconnect(); b.disconnect(); mm.close()
sys.exit(0 if ok else 1)
