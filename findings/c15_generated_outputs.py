"""Triage reproduction for C15 (exit 0 = every output loads).

Closure (documented constructs only): part.yaml defines struct S and message M; root.yaml imports it and
defines a native alias AN, an alias AS of the imported struct S, a struct T with a field of imported
message type M and an array of S, and a message U using AN, AS and T[2].
Checks: compile without internal error; Python module imports; C header compiles (gcc -fsyntax-only);
JavaScript module imports in node and U() has distinct array elements."""
import os, sys, tempfile, shutil, pathlib, subprocess, io, contextlib, importlib.util, textwrap
d = tempfile.mkdtemp(prefix="c15-")
res = {}
try:
    open(os.path.join(d, "part.yaml"), "w").write(textwrap.dedent("""\
        struct_defs:
          S:
            fields:
              a: int32
              b: int32
        message_defs:
          M:
            id: 1001
            fields:
              x: double
        """))
    open(os.path.join(d, "root.yaml"), "w").write(textwrap.dedent("""\
        imports:
          - part.yaml
        aliases:
          AN: int32
          AS: S
        struct_defs:
          T:
            fields:
              m: M
              arr: S[2]
        message_defs:
          U:
            id: 1002
            fields:
              n: AN
              pad: int32
              s: AS
              t: T[2]
        """))
    from pyrtma.compile import compile as rtma_compile
    cwd = os.getcwd()
    try:
        with contextlib.redirect_stdout(io.StringIO()), contextlib.redirect_stderr(io.StringIO()):
            rtma_compile([os.path.join(d, "root.yaml")], d, "out", python=True, javascript=True, c_lang=True, matlab=True)
        res["compile"] = "ok"
    except BaseException as e:
        res["compile"] = f"{type(e).__name__}: {e}"
    os.chdir(cwd)
    if res["compile"] == "ok":
        try:
            spec = importlib.util.spec_from_file_location("c15_out", os.path.join(d, "out.py")); mod = importlib.util.module_from_spec(spec); spec.loader.exec_module(mod)
            res["python"] = "ok"
        except BaseException as e:
            res["python"] = f"{type(e).__name__}: {e}"
        r = subprocess.run(["gcc", "-fsyntax-only", "-x", "c", os.path.join(d, "out.h")], capture_output=True, text=True)
        res["c"] = "ok" if r.returncode == 0 else r.stderr.strip().splitlines()[0][:160]
        shutil.copy(os.path.join(d, "out.js"), os.path.join(d, "out.mjs"))
        js = "import('%s').then(m => { const u = m.RTMA.MDF.U(); const n = u.n; const distinct = u.t[0] !== u.t[1] && u.t[0].arr[0] !== u.t[0].arr[1]; console.log(distinct ? 'ok' : 'shared array elements'); }).catch(e => console.log(String(e).split('\\n')[0]))" % os.path.join(d, "out.mjs")
        r = subprocess.run(["node", "-e", js], capture_output=True, text=True)
        res["javascript"] = (r.stdout.strip() or r.stderr.strip().splitlines()[-1])[:160]
    for k, v in res.items():
        print(f"{k:10s}: {v}")
    sys.exit(0 if all(v == "ok" for v in res.values()) and len(res) == 4 else 1)
finally:
    shutil.rmtree(d, ignore_errors=True)
