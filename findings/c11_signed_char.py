"""Triage reproduction for C11-T (mirror entry) (exit 0 = property holds).

`signed char` is in parser.supported_types, but its NativeType is named `signed_char` and the ctypes mirror that the final size
assertion of check_alignment uses has no entry under either spelling: a definition that needs no padding at all is not
accepted - the parser dies with KeyError('signed_char')."""
import sys, tempfile, os, textwrap
from pyrtma.parser import Parser

d = tempfile.mkdtemp()
p = os.path.join(d, "defs.yaml")
open(p, "w").write(textwrap.dedent("""
    message_defs:
      SC:
        id: 1000
        fields:
          a: signed char
          b: signed char
"""))
try:
    Parser().parse(p)
    print("accepted")
    rc = 0
except KeyError as e:
    print("KeyError", e, "- a naturally aligned definition with a supported native type is not accepted")
    rc = 1
finally:
    import shutil
    shutil.rmtree(d, ignore_errors=True)
sys.exit(rc)
