#!/bin/sh
# process every delivered, not yet evaluated sub-agent change under $SEEDROOT/Cxx/_seed/N  (default /tmp/seed3, suffix w3)
cd "$(dirname "$0")/.." || exit 2
ROOT=${SEEDROOT:-/tmp/seed3}
TAG=${SEEDTAG:-w3}
for d in $ROOT/C*/_seed/[0-9] $ROOT/C*/_seed/b[0-9]; do
  [ -f "$d/patch.diff" ] || continue
  [ -f "$d/meta.json" ] || continue
  pid=$(echo "$d" | sed "s#$ROOT/\(C[0-9]*\)/_seed/.*#\1#")
  n=$(basename "$d")
  id="$pid-$TAG$n"
  [ -f "seeded/$id/meta.json" ] && continue
  echo "== $id"
  /venv/bin/python tools/seedcheck.py "$d" --keep-as "$id" 2>&1 | grep -v conda | grep "confirmed\|^target\|^BENIGN\|^  \[" | cut -c1-360
done
