#!/bin/sh
# process every delivered, not yet evaluated sub-agent change under /tmp/seed/Cxx/_seed/N
cd "$(dirname "$0")/.." || exit 2
for d in /tmp/seed/C*/_seed/[0-9]; do
  [ -f "$d/patch.diff" ] || continue
  id=$(echo "$d" | sed 's#/tmp/seed/\(C[0-9]*\)/_seed/\([0-9]\)#\1-\2#')
  [ -f "seeded/$id/meta.json" ] && continue
  echo "== $id"
  /venv/bin/python tools/seedcheck.py "$d" --keep-as "$id" 2>&1 | grep -v conda | grep "confirmed\|^target\|^  \[" | cut -c1-360
done
