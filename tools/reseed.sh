#!/bin/sh
# re-run the checks against already confirmed seeds: tools/reseed.sh C01-1 C03-1 ...
cd "$(dirname "$0")/.." || exit 2
for id in "$@"; do
  echo "== $id"
  /venv/bin/python tools/seedcheck.py "seeded/$id" --skip-confirm --rerun "$id" 2>&1 | grep -v conda | grep "^target\|^BENIGN\|^  \[" | cut -c1-330
done
