#!/usr/bin/env python3
"""Confirm an independently written breaking change and run the checks against it.

usage: seedcheck.py <dir with patch.diff, demo.py, meta.json> [--keep-as NAME]

1. scratch worktree of /repo HEAD (outside /repo and /verif): demo passes on pristine code,
   patch applies, existing test suite passes with the patch, demo fails with the patch;
2. patch applied to /repo itself, every check's quick command run with --evidence none, patch undone
   (git -C /repo checkout -- .);
3. optionally stored as /verif/seeded/<NAME>/ with the outcome recorded in meta.json.
"""
import json
import os
import shutil
import subprocess
import sys
import tempfile
import time

VERIF = os.path.dirname(os.path.dirname(os.path.abspath(__file__)))
PY = "/venv/bin/python"


def sh(cmd, cwd=None, env=None, timeout=900):
    e = dict(os.environ)
    if env:
        e.update(env)
    p = subprocess.run(cmd, shell=True, cwd=cwd, env=e, capture_output=True, text=True, timeout=timeout)
    return p.returncode, (p.stdout + p.stderr)


def main():
    src = os.path.abspath(sys.argv[1])
    keep = sys.argv[sys.argv.index("--keep-as") + 1] if "--keep-as" in sys.argv else None
    skip_confirm = "--skip-confirm" in sys.argv
    benign = "--benign" in sys.argv or os.path.exists(os.path.join(src, "check.py")) and not os.path.exists(os.path.join(src, "demo.py"))
    patch, demo = os.path.join(src, "patch.diff"), os.path.join(src, "check.py" if benign else "demo.py")
    meta = json.load(open(os.path.join(src, "meta.json"))) if os.path.exists(os.path.join(src, "meta.json")) else {}
    out = {"confirmed": None}
    if not skip_confirm:
        wt = tempfile.mkdtemp(prefix="seedcheck-")
        os.rmdir(wt)
        try:
            rc, o = sh(f"git -C /repo worktree add --detach {wt} -q")
            if rc:
                print("cannot create worktree", o)
                return 2
            env = {"PYTHONPATH": os.path.join(wt, "src")}
            # some scripts of the earlier waves locate the tree through their own path (<worktree>/_seed/<n>/script.py):
            # run a copy from that place
            sdir = os.path.join(wt, "_seed", "x")
            os.makedirs(sdir, exist_ok=True)
            for fn in os.listdir(src):
                if fn.endswith(".py") or fn.endswith(".yaml") or fn.endswith(".json"):
                    shutil.copy(os.path.join(src, fn), os.path.join(sdir, fn))
            demo = os.path.join(sdir, os.path.basename(demo))
            rc0, o0 = sh(f"{PY} {demo}", cwd=wt, env=env, timeout=180)
            rca, oa = sh(f"git apply {patch}", cwd=wt)
            if rca:
                print("patch does not apply:", oa[:300])
                out["confirmed"] = False
            else:
                rct, ot = sh(f"{PY} -m pytest -q -p no:cacheprovider --timeout=900 -x --deselect tests/test_encoding.py::TestEncoding::test_message_encoding", cwd=wt, env=env, timeout=900)
                rc1, o1 = sh(f"{PY} {demo}", cwd=wt, env=env, timeout=180)
                out.update({"demo_pristine_rc": rc0, "tests_with_patch_rc": rct, "tests_tail": ot.strip().splitlines()[-1:] , "demo_patched_rc": rc1,
                            "demo_patched_tail": o1.strip().splitlines()[-3:]})
                out["confirmed"] = (rc0 == 0 and rct == 0 and ((rc1 == 0) if benign else (rc1 != 0)))
                out["benign"] = benign
        finally:
            sh(f"git -C /repo worktree remove --force {wt}")
            shutil.rmtree(wt, ignore_errors=True)
        print(json.dumps(out, indent=1))
    # run the checks against /repo with the patch applied
    rc, o = sh("git -C /repo status --porcelain")
    if o.strip():
        print("/repo is not clean; refusing to apply", o)
        return 2
    rca, oa = sh(f"git -C /repo apply {patch}")
    caught = {}
    try:
        if rca:
            print("patch does not apply to /repo:", oa[:300])
        else:
            props = [json.loads(l)["id"] for l in open(os.path.join(VERIF, "properties.jsonl"))]
            procs = {p: subprocess.Popen([os.path.join(VERIF, "check"), p, "--tier", "quick", "--evidence", "none", "--quiet"], cwd=VERIF, stdout=subprocess.PIPE, stderr=subprocess.STDOUT, text=True) for p in props}
            for p, pr in procs.items():
                o, _ = pr.communicate(timeout=300)
                fails = [l for l in o.splitlines() if l.startswith("FAIL ") or l.startswith("ANALYSIS-ERROR")]
                if pr.returncode != 0:
                    caught[p] = {"rc": pr.returncode, "lines": [l[:400] for l in fails[:4]]}
    finally:
        sh("git -C /repo checkout -- .")
        # files the patch created are untracked: remove exactly those (nothing else is ever deleted in /repo)
        for line in open(patch, encoding="utf-8", errors="replace"):
            if line.startswith("+++ b/"):
                rel = line[6:].strip()
                full = os.path.join("/repo", rel)
                rcx, ox = sh(f"git -C /repo ls-files --error-unmatch -- {rel}")
                if rcx != 0 and os.path.isfile(full) and rel.startswith("src/"):
                    os.remove(full)
    import re as _re

    target = meta.get("property") or (_re.search(r"(C\d\d)", src).group(1) if _re.search(r"(C\d\d)", src) else "?")
    meta["property"] = target
    out["caught_by"] = caught
    out["target_property"] = target
    out["caught_by_target"] = target in caught and caught[target]["rc"] == 1
    if benign:
        meta["benign"] = True
        print(f"BENIGN {target}: " + ("all 19 checks silent" if not caught else f"ALARM/ABORT from {sorted(caught)}"))
    else:
        print(f"target {target}: caught by {sorted(caught)}")
    for p, v in caught.items():
        for l in v["lines"]:
            print(f"  [{p} rc={v['rc']}] {l[:300]}")
    if "--rerun" in sys.argv:
        # refresh the recorded outcome of an already stored seed
        mp = os.path.join(src, "meta.json")
        meta.setdefault("checks", {})
        meta["checks"].update({"caught_by": sorted(caught), "caught_by_target": out["caught_by_target"], "reports": {p: v["lines"][:2] for p, v in caught.items()},
                               "rerun_at": time.strftime("%Y-%m-%d %H:%M:%S")})
        if "--skip-confirm" not in sys.argv:
            # the confirmation itself was repeated (e.g. after a flaky suite run under load): record it
            meta["confirmation"] = {k: v for k, v in out.items() if k != "caught_by"}
            meta["confirmed_at"] = time.strftime("%Y-%m-%d %H:%M:%S")
        json.dump(meta, open(mp, "w"), indent=1)
        return 0
    if keep:
        dst = os.path.join(VERIF, "seeded", keep)
        os.makedirs(dst, exist_ok=True)
        shutil.copy(patch, os.path.join(dst, "patch.diff"))
        shutil.copy(demo, os.path.join(dst, os.path.basename(demo)))
        meta.update({"origin": "independent sub-agent given only the property text and a scratch worktree", "confirmation": {k: v for k, v in out.items() if k != "caught_by"},
                     "checks": {"caught_by": sorted(caught), "caught_by_target": out["caught_by_target"], "reports": {p: v["lines"][:2] for p, v in caught.items()}},
                     "confirmed_at": time.strftime("%Y-%m-%d %H:%M:%S")})
        json.dump(meta, open(os.path.join(dst, "meta.json"), "w"), indent=1)
    return 0


if __name__ == "__main__":
    sys.exit(main())
