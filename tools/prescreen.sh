#!/bin/sh
# tools/prescreen.sh [ids...]  - quick parallel screening of stored seeds on scratch exports (development aid; the recorded
# results in seeded/*/meta.json come from tools/reseed.sh, which applies each patch to /repo itself)
cd "$(dirname "$0")/.." || exit 2
OUT=${PRESCREEN_OUT:-/tmp/prescreen}
mkdir -p "$OUT"
IDS=${@:-$(ls seeded | grep -v README)}
echo $IDS | tr ' ' '\n' | xargs -P ${PRESCREEN_JOBS:-5} -I{} sh -c "TRYLINES=2 TRYCOLS=260 tools/trypatch.sh $(pwd)/seeded/{}/patch.diff > $OUT/{}.out 2>&1"
/venv/bin/python - "$OUT" $IDS <<'PY'
import sys, json, os, re
out = sys.argv[1]
for sid in sys.argv[2:]:
    meta = json.load(open(f"seeded/{sid}/meta.json"))
    txt = open(f"{out}/{sid}.out").read()
    rcs = dict(re.findall(r"^(C\d\d) rc=(\d)", txt, re.M))
    tgt = meta.get("property")
    if meta.get("benign"):
        if rcs:
            print(f"BENIGN-NOT-SILENT {sid}: {rcs}" + (f"  [limitation recorded]" if meta.get("limitation") else ""))
    else:
        if rcs.get(tgt) != "1":
            print(f"BREAKING-NOT-CAUGHT-BY-OWN {sid}: {rcs}")
PY
