#!/usr/bin/env python3
"""Regenerate /verif/seeded/README.md from the meta.json files."""
import json, os, glob
V = os.path.dirname(os.path.dirname(os.path.abspath(__file__)))
rows = []
brows = []
for mp in sorted(glob.glob(os.path.join(V, "seeded", "*", "meta.json"))):
    m = json.load(open(mp)); sid = os.path.basename(os.path.dirname(mp))
    ck = m.get("checks", {})
    if m.get("benign"):
        brows.append((sid, m.get("property", "?"), (m.get("summary") or "")[:260].replace("\n", " ").replace("|", "/"), "yes" if not ck.get("caught_by") else "NO: " + ", ".join(f"{p_} (rc {(ck.get('reports') or {}).get(p_) and ('2' if any('ANALYSIS-ERROR' in l_ for l_ in ck['reports'][p_]) else '1') or '?'})" for p_ in ck.get("caught_by")),
                      m.get("corrected", "") or m.get("limitation", "")))
        continue
    rules = []
    for p, ls in (ck.get("reports") or {}).items():
        for l in ls[:1]:
            parts = l.split(" ")
            rid = next((x for x in parts if x[:1] == "C" and "-" in x and x[1:3].isdigit()), "")
            rules.append(f"{p}:{rid}" if rid else p)
    rows.append((sid, m.get("property", "?"), (m.get("summary") or "")[:230].replace("\n", " ").replace("|", "/"), (m.get("needs_to_manifest") or "")[:200].replace("\n", " ").replace("|", "/"),
                 ", ".join(ck.get("caught_by") or []) or "-", "yes" if ck.get("caught_by_target") else "NO", "; ".join(sorted(set(rules)))[:160], m.get("strengthened", "")))
with open(os.path.join(V, "seeded", "README.md"), "w") as f:
    f.write("# Independently written breaking changes\n\nEach directory holds `patch.diff` (against /repo HEAD at the time), `demo.py` (exit 0 on pristine code, non-zero with the patch) and `meta.json`.\n"
            "Written by sub-agents that saw only the property text and a scratch worktree; confirmed by `tools/seedcheck.py` (suite passes with the patch, demo flips). "
            "`caught by` = checks whose quick command exits non-zero with the patch applied to /repo (exit 2 = an anchor of another property's check vanished, not a verdict).\n\n"
            "| id | property | change | needs to manifest | caught by | by its own check | first rule reported | rule added/strengthened because of it |\n|---|---|---|---|---|---|---|---|\n")
    for r in rows:
        f.write("| " + " | ".join(r) + " |\n")
    f.write("\n## Behaviour-preserving refactors (must stay silent)\n\nWritten by the same kind of sub-agent (property text only) as realistic maintenance changes that keep the property; "
            "`check.py` passes before and after. Every check must exit 0 with the patch applied; the four rows that say NO are the limitations listed in DESIGN §7.2 (sixth wave).\n\n| id | property | refactor | all 19 checks silent | what had to be corrected in the checks |\n|---|---|---|---|---|\n")
    for r in brows:
        f.write("| " + " | ".join(r) + " |\n")
print(len(rows), "seeds", len(brows), "benign")
