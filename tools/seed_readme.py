#!/usr/bin/env python3
"""Regenerate /verif/seeded/README.md from the meta.json files."""
import json, os, glob
V = os.path.dirname(os.path.dirname(os.path.abspath(__file__)))
rows = []
for mp in sorted(glob.glob(os.path.join(V, "seeded", "*", "meta.json"))):
    m = json.load(open(mp)); sid = os.path.basename(os.path.dirname(mp))
    ck = m.get("checks", {})
    rules = []
    for p, ls in (ck.get("reports") or {}).items():
        for l in ls[:1]:
            parts = l.split(" ")
            rid = next((x for x in parts if x[:1] == "C" and "-" in x and x[1:3].isdigit()), "")
            rules.append(f"{p}:{rid}" if rid else p)
    rows.append((sid, m.get("property", "?"), (m.get("summary") or "")[:230].replace("\n", " ").replace("|", "/"), (m.get("needs_to_manifest") or "")[:200].replace("\n", " ").replace("|", "/"),
                 ", ".join(ck.get("caught_by") or []) or "-", "yes" if ck.get("caught_by_target") else "NO", "; ".join(sorted(set(rules)))[:160], m.get("strengthened", "")))
with open(os.path.join(V, "seeded", "README.md"), "w") as f:
    f.write("# Independently written breaking changes\n\nEach directory holds `patch.diff` (against /repo HEAD at the time), `demo.py` (exit 0 on pristine code, non-zero with the patch) and `meta.json`.\n"
            "Written by sub-agents that saw only the property text and a scratch worktree; confirmed by `tools/seedcheck.py` (suite passes with the patch, demo flips). "
            "`caught by` = checks whose quick command exits non-zero with the patch applied to /repo (exit 2 = an anchor of another property's check vanished, not a verdict).\n\n"
            "| id | property | change | needs to manifest | caught by | by its own check | first rule reported | rule added/strengthened because of it |\n|---|---|---|---|---|---|---|---|\n")
    for r in rows:
        f.write("| " + " | ".join(r) + " |\n")
print(len(rows), "seeds")
