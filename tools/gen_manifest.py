#!/usr/bin/env python3
"""Regenerates /verif/MANIFEST.json from the table below (kept in one place so the manifest stays valid)."""
import json, os

VERIF = os.path.dirname(os.path.dirname(os.path.abspath(__file__)))
PROPS = [json.loads(l) for l in open(os.path.join(VERIF, "properties.jsonl"))]

# property id -> (technique, level text, level note, design ref)
CHECKS = {
 "C01": ("AST/CFG dataflow: def-use closure of recipients, dominating-guard truth tables (destination filter, range gates), dispatch exhaustiveness per message-type branch, store-effect scan on the forwarded header; abstract interpretation of the manager's four subscription handlers over symbolic types (exhaustive state space, shared with C02-M) compared with the transition each control frame asks for",
         "All armed necessary conditions of the routing predicate hold on every path/site of forward_message/process_message in the current tree (recipient source, destination filter, range gates, pass-through, dispatch exhaustiveness, <=1 send per iteration, no double registration and a subscription table that follows every control frame (arbitrary frames, exhaustive abstract space), readiness poll over every connection, recipient collection narrowed only by the destination filter, header layout agnosticism). It is a structural decision over all paths of the code, not over all histories.",
         "Decides the routing decision structure only; delivery over histories, OS readiness and payload sizes are runtime values and not decided. Assumes C02's index invariant for duplicate-freeness.", "DESIGN.md §2 C01"),
 "C05": ("who-may-call + must-precede/must-follow/count-on-paths over the CFG of the frame writers; transitive header-length/payload pairing over the call graph",
         "Ownership and ordering facts that make frames whole and sequence numbers contiguous hold at every site/path: sole socket writers, sendall header-then-payload, +1 exactly once stamped before the header write, declared length tied to the payload at every transitive call site, single thread of control.",
         "Trusts sendall/TCP; receiver types come from the repository's annotations.", "DESIGN.md §2 C05"),
 "C07": ("registration/erasure pairing discovered from container stores, must-follow on remove_module's CFG, who-may-call on close/send_client_close, funnel check of every departure detector (receive coverage through call chains); value-keyed index erasure under registration evidence; per-iteration liveness facts in delivery loops; must-precede of the recipient-set erasures before every publishing call (call-graph closure incl. the logging edge) in remove_module; ghost-marked path facts for the short-read exits",
         "Every container that registers a Module/socket is emptied by remove_module on every normal path; every departure detector funnels into remove_module exactly once; nothing else closes a client socket; exactly one CLIENT_CLOSED per removal; write-failure handlers keep the recipient loop going and no recipient removed earlier in the same delivery is written to; an index keyed by a client-chosen value is erased only on evidence that the departing module registered it; remove_module publishes nothing (CLIENT_CLOSED, log records) before the module left subscriptions and logger_modules (re-entrancy past the idempotence guard).",
         "'Reusable immediately' as observed by a reconnecting client is timing and not decided; relies on C02-I3 (Module.subs is the inverse index).", "DESIGN.md §2 C07"),
 "C14": ("path classification of the per-subscriber loop with edge-filtered guard states; sibling agreement of write-failure handlers; exhaustiveness of the recursion guard against core_defs constants; guard facts on every exit of send_failed_message that bypasses the publication",
         "Every path through one subscriber iteration sends, reports or is ineligible; all write-failure handlers remove+report with the right arguments; not-ready loggers are waited for, only non-loggers dropped; the recursion guard covers FAILED_MESSAGE and every RTMA_LOG* constant found in core_defs; the notice carries recipient id and full header copy.",
         "Which sockets the OS reports writable is a runtime schedule and not decided.", "DESIGN.md §2 C14"),
 "C19": ("per-message-type branch extraction from guard states of process_message's CFG; interprocedural count-on-paths of send_ack per branch (a handler acknowledging exactly once on each of its normal paths counts as one ack at its call site); call-closure exclusion; who-may-call; store/dominance checks in send_ack",
         "Exactly one send_ack(src) on every path of each subscription-control branch, exactly one iff connect_module(...) is truthy for the connect types, none in any other branch's call closure; addressing of the ACK; logger copy on every path; requester/logger overlap; client handshake order.",
         "Cross-module interleaving follows from C05-T single-threadedness and is not separately decided.", "DESIGN.md §2 C19"),
 "C06": ("swap detector over resolved call sites (argument/parameter binding), def-use flow of options into CONNECT fields and Module attributes, dominating-guard truth tables (integer theory) on connect_module, per-iteration back-edge guard facts of the uniqueness loop, interval check of the dynamic cursor",
         "Options bind to the parameters they are named after at every resolved call site; each option reaches the same-named wire field and Module attribute; connected=True is dominated by the range test and the completed uniqueness loop (id and name refusals) or an id from assign_module_id whose returns are dominated by `not in current ids`; the client adopts the acknowledged id.",
         "Wrap-around of the dynamic cursor over long histories is arithmetic over unbounded histories and only decided as an interval invariant. The 100-vs-99 boundary disagreement between client and manager is an observation, not armed.", "DESIGN.md §2 C06"),
 "C08": ("count-on-paths of drains between header read and each decode-error raise, must-precede of the connected-flag clear before every ConnectionLost raise, try/handler ownership of every socket primitive, dominating-guard truth tables for the subscription filter and the size/version rejection conditions, store scan on the received objects; must-follow of blocking-mode restoration after any timeout set on the client socket; guard facts at every direct ConnectionLost raise",
         "Exactly one frame is consumed on every path of _read_message (one drain before each decode-error raise, none on success, payload read under size equality); ConnectionLost always follows _connected=False and every socket primitive converts ConnectionError; read_message returns only under the subscription filter; version/size rejections are exact; bytes are received into the returned objects.",
         "MSG_WAITALL / OS socket semantics trusted; 'server closes at every byte offset' is not enumerated, only the flag/raise discipline is decided.", "DESIGN.md §2 C08"),
 "C02": ("abstract interpretation of the client/manager subscription functions over symbolic message types (data-independence abstraction), exhaustive BFS of the abstract (client, manager) state space; plus a syntactic mutate-while-iterating rule",
         "Exhaustive over the abstract space: every reachable (client, manager) subscription state x every public operation x every argument list over {ALL, a, b[, c]} satisfies I1 agreement, I2 paused-not-delivered, I3 index consistency, I4 refusal under subscribe-all, I5 scoped restore. Transformers are read from the current source on every run; uses of message types other than ==/in abort the analysis.",
         "Sound for the set semantics under the data-independence argument (types only compared for equality/membership - enforced). Assumes in-order one-at-a-time processing of control frames (C05/C19). List-position effects inside an argument list are covered by interpreting lists with CPython index semantics up to length 3.", "DESIGN.md §2 C02"),
 "C04": ("table agreement across sibling back ends (key sets, width/signedness through frozen target-language vocabularies and validators.py class constants), structural check of every field-walk loop, attribute-read agreement of sibling emitters, wiring of generate() loops; light taint of the unevaluated yaml expression text into back-end f-strings; path facts of MessageMeta's descriptor collection loop",
         "The native-type tables of the parser, its ctypes mapper and the four back ends agree on keys, width and signedness (157 comparisons); every struct/message generator walks <def>.fields once, in order, unfiltered; id/constant/hash emitters read the same attributes and every table is wired to its emitter; recorded size = sum of field sizes; emitted extents/values are the parser's evaluated numbers, never the yaml text; the Python metaclass lays out every descriptor in declaration order.",
         "sizeof/offsetof as laid out by a real C compiler and JS/MATLAB runtime representation need compiling generated output (execution) and are not decided; stand-in: C04-W + C11 + C16-A.", "DESIGN.md §2 C04"),
 "C09": ("MRO-resolved enumeration of validator classes; edge-filtered guard states (validate-before-write on every path, per write effect); reachability for atomicity; must-follow on the exceptional continuation of `yield`; who-may-write on the ContextVar (incl. the ExitStack callback idiom); constant folding of the bounds table; path facts at every sequence-to-scalar fold (int.from_bytes / [0])",
         "Every write effect of every __set__/__setitem__ is reached only after validation of the same value, or with validation off, or via own-ctype/delegation; no write precedes a validation; validate_many quantifies over all elements (order statistics only after an all-int check); the disable block restores the flag on exceptional exit; single flag writer; bounds equal 2**bits arithmetic; bytes are folded into one integer only where their length is established to be 1.",
         "Read-back equality, nearest-float rounding and each numeric boundary are numerical results and not decided; ctypes' own slice-length/type checks are trusted.", "DESIGN.md §2 C09"),
 "C10": ("structural rules: result-expression grammar of copy() and type-resolved receiver of from_buffer_copy (class, not instance); dominating-guard truth table in Message.from_json; case-classification agreement between _to_dict and _from_dict from path facts; key-set agreement of to_dict/to_json with what from_json reads; sibling agreement (propositional equivalence) of the refusal predicates of validate_one and validate_many",
         "Decides only the clauses with a code-shape core: copies are built exclusively with from_buffer_copy called on a structure class; whole-array validation refuses exactly what element validation refuses (so what a message can hold can be decoded back); the JSON data decode is dominated by version == 0 or version == local hash; encoder and decoder classify field types by the same ordered tests, encoder-only cases being int-list producers.",
         "The headline clause - bytes -> dict/JSON -> bytes is the identity for every value - is round-trip equality over values and is NOT decided by static analysis.", "DESIGN.md §2 C10, §3"),
 "C11": ("mutation scan of the field list in check_alignment, dominating guards of padding constructions, must-precede of validation before registration, guard facts at validate_msg_def's normal exits; abstract interpretation of check_alignment's current source over a family of field sequences complete for its control decisions (offset read only through ptr mod 8); thorough: independent natural-layout recomputation of every shipped definition",
         "Padding only inserts self-built `char` fields and never reorders/resizes/drops user fields; every padding construction is dominated by auto_pad; every registered definition passed validate_msg_def, which rejects size > 65535 on every normal exit and runs check_alignment exactly under validate_alignment; C11-N: for every residue of the running offset mod 8 and every (alignment, element size, length) class of the next one or two fields, user fields land on their natural C offsets, only char padding is inserted, size and recorded alignment are the natural ones (for struct and for message definitions as containers), and with auto_pad off a definition is accepted iff it needs no padding (1216 interpreted runs quick, ~17000 thorough).",
         "The arithmetic clause is decided by interpreting the function over a finite family shown complete for its decisions (argument in DESIGN §7.1 C11-N); that a C compiler produces the natural layout is trusted.", "DESIGN.md §2 C11, §3"),
 "C12": ("must-precede of check_duplicate_name / validator loops before every registry store (CFG), sibling agreement of namespace tuples, call-graph acceptance of indirect registrars, who-may-call parse_text, attribute-set agreement of __init__ and clear",
         "Every store into a shared name table is preceded on every path by a duplicate-name check over all five tables; every id registry store by its whole-registry duplicate loop and range test; reserved ranges are inclusive and fully registered; a file is recorded (resolved path) before parsing and parse_text is only reachable through parse_file; registries are per instance and cleared on failure.",
         "Symlink/case aliasing of import paths is filesystem semantics and not decided.", "DESIGN.md §2 C12"),
 "C13": ("backward information-flow closure of the sha256 argument to its roots (must-include / must-exclude), constructor-argument check, slice/decoration check of every hash emission site and of the name it is filed under (through helpers), edge-filtered guard states for the version stamp",
         "The hashed text depends on exactly name, id and the in-order field name/type pairs at all three hashing sites; the stored digest is that digest; every back end prints hash[:8] under the definition's unrewritten name; send_message stamps header.version before the header is sent on every path but the documented legacy one; version aliases the reserved wire field.",
         "Collision-freeness of the 32-bit prefix is not claimed; sha256 and insertion-ordered dicts trusted.", "DESIGN.md §2 C13"),
 "C15": ("reference relation extracted from the front end vs emission order extracted from each generate() with frozen per-language eagerness; template lints of the JavaScript f-strings; return-annotation based branch type agreement; dispatch totality (through delegation); working-directory and once-only (resolved path) discipline of parse_file; reserved field names and descriptor constructor preconditions",
         "Every eager cross-section reference points to an earlier section (6 recorded known findings for Python/C/MATLAB); JS aliases are callables in the namespace fields read, namespaces exist before use, arrays are built per element; get_ctype_cls branches all yield ctypes types; every per-type dispatch covers the four kinds and raises otherwise.",
         "That generated text is accepted by CPython/gcc/node/MATLAB is execution of generated artefacts and not decided; the findings were confirmed once by running the real compiler (findings/c15_generated_outputs.py).", "DESIGN.md §2 C15"),
 "C16": ("usage-context classification of every nondeterminism-source call in parser/compile/back ends; section mirroring check in parse_text; exhaustive artefact agreement between shipped YAML (data) and shipped generated module (AST) with independent constant evaluator, sha256 recomputation and natural-layout calculator; who-may-write on the module-level tables of the parser and the back ends (through attribute / local aliases)",
         "No module-level table survives a compile modified; no time/random/pid/cwd/absolute-path/id()/hash()/set-order value can reach emitted text; every parsed section is mirrored into the combined YAML (repeatable `_RESERVED_` merged); core_defs.py agrees with core_defs.yaml + imports on every constant, alias, id, type_def, recomputed type_hash, descriptor sequence and natural size (445 comparisons, exhaustive over the shipped files; thorough adds tests/ and examples/ pairs: 3060).",
         "Byte-identity of two real runs and the YAML emitter/loader round trip need execution and are not decided; black trusted deterministic.", "DESIGN.md §2 C16"),
 "C03": ("interprocedural taint from received header/payload fields, counter key sets and the connection count to partial primitives (recv size, fixed-array index, ASCII decode) with dominating-guard truth tables (integer theory); bottom-up may-mutate summaries over the call graph (incl. the logging -> send_message edge) against every loop over a manager container; receive-size bounds judged at the call sites of a receive helper; termination of receive-completion loops on a 0-byte result; typestate of removed modules in snapshot loops; handler coverage of socket sites; lexical containment of the service loop in an unconditional disable_message_validation() block",
         "None of the enumerated crash channels into the uncaught region of run() is open: every client-controlled operand of a partial primitive is bounded by a dominating guard or handler, no loop over a live manager container can have it mutated by its own body and iterate again, snapshot loops re-establish liveness and remove_module is idempotent, every socket operation is covered by a removing ConnectionError handler.",
         "This is NOT 'the manager cannot crash': no sound may-raise analysis exists for Python; only the listed partial primitives and channels are decided. Seven defects found by these rules were repaired (known_findings.json, findings/c03_crash_channels.py).", "DESIGN.md §2 C03"),
 "C17": ("thread-role derivation from the Thread target over the call graph; who-may-access classification of the two buffers; evidence-edge reachability (staging only after `not is_set()` or a completed wait); per-iteration must-precede of the Event operations; structural finalisation order",
         "Decides the hand-off discipline of the double buffer (necessary conditions, each with the interleaving that breaks the property when the rule is broken): buffer ownership by role, fresh-list swap, staging only on evidence of a completed hand-off, stage+clear-finished before token, write before both signals, finished published before the token is released, append-before-flush under the selection guard, stop/finalise/close order of data sets and formatters.",
         "Exactly-once / in-order over ALL interleavings is a model-checking problem and is NOT decided by this family; file contents and quick-logger offset arithmetic are not decided.", "DESIGN.md §2 C17, §3"),
 "C18": ("who-may-write and dominating-guard checks on the counters; read-then-reset ordering with call-graph forwarding closure; abstract interpretation of send_traffic over symbolic (type, count) entries for table sizes around 0, K, 2K, 3K, with and without listeners; the exclusion mechanism (context manager + flag, or explicit set/reset of the flag around the sends) and the counters' access paths (attribute or field of an interval object) are discovered from the code",
         "Counters are incremented only in forward_message, once, before any exit, never for statistics messages; cleared only by their reporter after the copy with nothing forwarded in between; the timing table stores every counted type and module; the sub-messages of one MESSAGE_TRAFFIC report list every entry exactly once with its own count (10 table sizes; the loop is periodic in the chunk size).",
         "uint16 saturation of counts and interval timing are values/time and not decided.", "DESIGN.md §2 C18"),
}

NOT_YET = "check not built yet (build phase in progress)"


def main():
    checks, na = [], []
    for p in PROPS:
        pid = p["id"]
        if pid in CHECKS and os.path.exists(os.path.join(VERIF, "sa", "rules", pid.lower() + ".py")):
            tech, text, note, ref = CHECKS[pid]
            checks.append({
                "property_id": pid,
                "quick_cmd": f"./check {pid} --tier quick",
                "thorough_cmd": f"./check {pid} --tier thorough",
                "evidence_file": f"evidence/{pid}.json",
                "replay_cmd_template": f"./check {pid} --replay {{path}}",
                "engine": "sa",
                "level_claimed": {"category": "other", "text": text, "design_ref": ref},
                "level_note": note,
                "technique": "static analysis: " + tech,
            })
        else:
            na.append({"property_id": pid, "reason": NA.get(pid, NOT_YET)})
    m = {
        "version": 1,
        "setup_cmd": "true",
        "hooks": {
            "guard": "PYRTMA_VERIF",
            "enable": "none needed: the static checks read /repo's sources and never instrument or run them",
            "baseline_off_cmd": "cd /repo && /venv/bin/python -m pytest -ra -q -p no:cacheprovider --timeout=900 --continue-on-collection-errors",
            "source_commits": [],
            "add_only": True,
        },
        "engines": [{"name": "sa", "path": "sa/", "serves_properties": [c["property_id"] for c in checks],
                     "kind_free_text": "repository-specific static analysis over the Python AST: statement CFG with exception edges, must-dataflow queries, disjunctive guard states + truth tables, annotation-driven call graph, who-may-call, sibling agreement, artefact agreement"}],
        "checks": checks,
        "notes": "All checks are static (source -> AST -> graphs); nothing from /repo is imported or executed. Exit 2 + ANALYSIS-ERROR = the analysis itself could not run (anchor vanished / floor missed), never a verdict. known_findings.json lists recorded genuine defects (printed as KNOWN-FINDING).",
        "not_applicable": na,
    }
    json.dump(m, open(os.path.join(VERIF, "MANIFEST.json"), "w"), indent=1)
    print(f"{len(checks)} checks, {len(na)} not applicable")


NA = {}

if __name__ == "__main__":
    main()
