#!/usr/bin/env python3
"""tools/dumpnorm.py <root> <module> <qualname>  - print a function as the rules see it (after source normalisation)"""
import ast, sys, os
sys.path.insert(0, os.path.dirname(os.path.dirname(os.path.abspath(__file__))))
from sa.program import Program
prog = Program(sys.argv[1])
m = prog.modules[sys.argv[2]]
for k, v in prog.inlined.items():
    print("#", k, v[:6])
if prog.expansion_errors:
    print("# ERRORS", prog.expansion_errors)
q = sys.argv[3]
f = m.functions.get(q)
print(ast.unparse(f.node) if f else f"{q} not found: {sorted(m.functions)[:80]}")
