#!/usr/bin/env python3
"""Mechanical whole-tree, behaviour-preserving transformations of /repo/src (into scratch copies outside /repo and /verif),
followed by all 19 quick checks on each copy.  Every check must stay silent (rc 0) on every copy: a non-zero rc is a defect
of the checks (brittleness against the spelling of the code), never of the code.

    tools/mechanical.py [kind ...]        kinds: unparse locals invert splitand methods attrs flags whiletrue guard ternary augassign format percent continue elsereturn flipcmp hoist match walrus tryelse bindmethods chained nextfind static indexloop aliasinit effectcomp isinsplit strconcat notcmp demorgan returnnone kwargs   (default: all)

Not a registered check: it exercises the checks, it decides no property."""
import ast, os, shutil, subprocess, sys, tempfile, builtins

VERIF = os.path.dirname(os.path.dirname(os.path.abspath(__file__)))
REPO = "/repo"
PROPS = [f"C{i:02d}" for i in range(1, 20)]


def files(root):
    for dp, dn, fns in os.walk(os.path.join(root, "src", "pyrtma")):
        dn[:] = [d for d in dn if d != "__pycache__"]
        for fn in fns:
            if fn.endswith(".py"):
                yield os.path.join(dp, fn)


class Locals(ast.NodeTransformer):
    """rename every local variable (assigned names that are not parameters, globals or used by nested scopes)"""

    def visit_FunctionDef(self, fn):
        params = {a.arg for a in fn.args.posonlyargs + fn.args.args + fn.args.kwonlyargs} | ({fn.args.vararg.arg} if fn.args.vararg else set()) | ({fn.args.kwarg.arg} if fn.args.kwarg else set())
        nested = [n for n in ast.walk(fn) if n is not fn and isinstance(n, (ast.FunctionDef, ast.AsyncFunctionDef, ast.Lambda, ast.ClassDef))]
        nested_names = {x.id for n in nested for x in ast.walk(n) if isinstance(x, ast.Name)}
        glob = {nm for n in ast.walk(fn) if isinstance(n, (ast.Global, ast.Nonlocal)) for nm in n.names}
        stored = set()
        for n in ast.walk(fn):
            if isinstance(n, ast.Name) and isinstance(n.ctx, (ast.Store, ast.Del)):
                stored.add(n.id)
            elif isinstance(n, ast.ExceptHandler) and n.name:
                stored.add(n.name)
        ren = {s: s + "_r" for s in stored - params - nested_names - glob if not hasattr(builtins, s)}
        if nested:
            ren = {}
        for n in ast.walk(fn):
            if isinstance(n, ast.Name) and n.id in ren:
                n.id = ren[n.id]
            elif isinstance(n, ast.ExceptHandler) and n.name in ren:
                n.name = ren[n.name]
        for st in fn.body:
            if isinstance(st, (ast.FunctionDef, ast.AsyncFunctionDef, ast.ClassDef)):
                self.visit(st)
        return fn


class Invert(ast.NodeTransformer):
    def visit_If(self, n):
        self.generic_visit(n)
        if n.orelse and not (len(n.orelse) == 1 and isinstance(n.orelse[0], ast.If)):
            t = n.test.operand if isinstance(n.test, ast.UnaryOp) and isinstance(n.test.op, ast.Not) else ast.UnaryOp(op=ast.Not(), operand=n.test)
            return ast.copy_location(ast.If(test=t, body=n.orelse, orelse=n.body), n)
        return n


class SplitAnd(ast.NodeTransformer):
    def visit_If(self, n):
        self.generic_visit(n)
        if not n.orelse and isinstance(n.test, ast.BoolOp) and isinstance(n.test.op, ast.And) and len(n.test.values) == 2:
            inner = ast.If(test=n.test.values[1], body=n.body, orelse=[])
            return ast.copy_location(ast.If(test=n.test.values[0], body=[inner], orelse=[]), n)
        return n


class Flags(ast.NodeTransformer):
    """`if <cond>:` -> `_fN = <cond>` / `if _fN:` for every if that is not an elif link (conditions evaluated once, in place)"""

    def __init__(self):
        self.n = 0

    def _block(self, stmts):
        out = []
        for st in stmts:
            st = self.visit(st)
            if isinstance(st, ast.If) and not any(isinstance(x, (ast.NamedExpr, ast.Await, ast.Yield)) for x in ast.walk(st.test)):
                self.n += 1
                nm = f"_f{self.n}"
                out.append(ast.copy_location(ast.Assign(targets=[ast.Name(id=nm, ctx=ast.Store())], value=st.test), st))
                st.test = ast.copy_location(ast.Name(id=nm, ctx=ast.Load()), st.test)
            out.append(st)
        return out

    def generic_visit(self, node):
        for fld in ("body", "orelse", "finalbody"):
            v = getattr(node, fld, None)
            if isinstance(v, list) and v and isinstance(v[0], ast.stmt):
                if fld == "orelse" and isinstance(node, ast.If) and len(v) == 1 and isinstance(v[0], ast.If):
                    node.orelse = [self.visit_elif(v[0])]
                else:
                    setattr(node, fld, self._block(v))
        if isinstance(node, ast.Try):
            for h in node.handlers:
                h.body = self._block(h.body)
        return node

    def visit_elif(self, n):
        n.body = self._block(n.body)
        if len(n.orelse) == 1 and isinstance(n.orelse[0], ast.If):
            n.orelse = [self.visit_elif(n.orelse[0])]
        else:
            n.orelse = self._block(n.orelse)
        return n


class WhileTrue(ast.NodeTransformer):
    def visit_While(self, n):
        self.generic_visit(n)
        if n.orelse or (isinstance(n.test, ast.Constant) and n.test.value in (True, 1)):
            return n
        brk = ast.If(test=ast.UnaryOp(op=ast.Not(), operand=n.test), body=[ast.Break()], orelse=[])
        return ast.copy_location(ast.While(test=ast.Constant(value=True), body=[brk] + n.body, orelse=[]), n)


class Guard(ast.NodeTransformer):
    """a function whose last statement is `if c: BODY` (no else) gets the guard clause `if not c: return` + BODY"""

    def visit_FunctionDef(self, fn):
        self.generic_visit(fn)
        last = fn.body[-1] if fn.body else None
        if isinstance(last, ast.If) and not last.orelse and not any(isinstance(x, (ast.Yield, ast.YieldFrom)) for x in ast.walk(fn)) and len(last.body) > 1:
            g = ast.copy_location(ast.If(test=ast.UnaryOp(op=ast.Not(), operand=last.test), body=[ast.Return(value=None)], orelse=[]), last)
            fn.body = fn.body[:-1] + [g] + last.body
        return fn


class Ternary(ast.NodeTransformer):
    """`if c: x = a / else: x = b` -> `x = a if c else b`"""

    def visit_If(self, n):
        self.generic_visit(n)
        if len(n.body) == 1 and len(n.orelse) == 1 and isinstance(n.body[0], ast.Assign) and isinstance(n.orelse[0], ast.Assign) \
                and len(n.body[0].targets) == 1 and len(n.orelse[0].targets) == 1 and isinstance(n.body[0].targets[0], (ast.Name, ast.Attribute)) \
                and ast.dump(n.body[0].targets[0]) == ast.dump(n.orelse[0].targets[0]):
            return ast.copy_location(ast.Assign(targets=n.body[0].targets, value=ast.IfExp(test=n.test, body=n.body[0].value, orelse=n.orelse[0].value)), n)
        return n


class AugToAssign(ast.NodeTransformer):
    """`x += e` -> `x = x + e` (targets without side effects)"""

    def visit_AugAssign(self, n):
        def pure(e):
            return isinstance(e, ast.Name) or (isinstance(e, ast.Attribute) and pure(e.value)) or (isinstance(e, ast.Subscript) and pure(e.value) and (pure(e.slice) or isinstance(e.slice, ast.Constant)))

        if not pure(n.target):
            return n
        import copy
        load = copy.deepcopy(n.target)
        for x in ast.walk(load):
            if hasattr(x, "ctx"):
                x.ctx = ast.Load()
        return ast.copy_location(ast.Assign(targets=[n.target], value=ast.BinOp(left=load, op=n.op, right=n.value)), n)


class Format(ast.NodeTransformer):
    """f"..{a}..{b}.." -> "..{}..{}..".format(a, b)  (plain substitutions only)"""

    def visit_JoinedStr(self, n):
        self.generic_visit(n)
        if any(isinstance(v, ast.FormattedValue) and (v.conversion != -1 or v.format_spec is not None) for v in n.values):
            return n
        if not any(isinstance(v, ast.FormattedValue) for v in n.values):
            return n
        txt, args = "", []
        for v in n.values:
            if isinstance(v, ast.Constant):
                txt += str(v.value).replace("{", "{{").replace("}", "}}")
            else:
                txt += "{}"
                args.append(v.value)
        return ast.copy_location(ast.Call(func=ast.Attribute(value=ast.Constant(value=txt), attr="format", ctx=ast.Load()), args=args, keywords=[]), n)


class Percent(ast.NodeTransformer):
    """f"..{a}..{b}.." -> "..%s..%s.." % (a, b)  (plain substitutions only)"""

    def visit_JoinedStr(self, n):
        self.generic_visit(n)
        if any(isinstance(v, ast.FormattedValue) and (v.conversion != -1 or v.format_spec is not None) for v in n.values):
            return n
        if not any(isinstance(v, ast.FormattedValue) for v in n.values):
            return n
        txt, args = "", []
        for v in n.values:
            if isinstance(v, ast.Constant):
                txt += str(v.value).replace("%", "%%")
            else:
                txt += "%s"
                args.append(v.value)
        return ast.copy_location(ast.BinOp(left=ast.Constant(value=txt), op=ast.Mod(), right=ast.Tuple(elts=args, ctx=ast.Load())), n)


class EarlyContinue(ast.NodeTransformer):
    """a loop body that is one `if c: BODY` becomes `if not c: continue` + BODY"""

    def visit_For(self, n):
        self.generic_visit(n)
        if len(n.body) == 1 and isinstance(n.body[0], ast.If) and not n.body[0].orelse and len(n.body[0].body) > 1:
            i = n.body[0]
            n.body = [ast.copy_location(ast.If(test=ast.UnaryOp(op=ast.Not(), operand=i.test), body=[ast.Continue()], orelse=[]), i)] + i.body
        return n


class ElseAfterReturn(ast.NodeTransformer):
    """`if c: ...return` followed by REST in the same block -> `if c: ...return / else: REST`"""

    def _block(self, stmts):
        for i, st in enumerate(stmts):
            if isinstance(st, ast.If) and not st.orelse and st.body and isinstance(st.body[-1], (ast.Return, ast.Raise, ast.Continue, ast.Break)) and i + 1 < len(stmts):
                st.orelse = self._block(stmts[i + 1:])
                return stmts[:i + 1]
        return stmts

    def generic_visit(self, node):
        super().generic_visit(node)
        for fld in ("body", "orelse", "finalbody"):
            v = getattr(node, fld, None)
            if isinstance(v, list) and v and isinstance(v[0], ast.stmt) and not isinstance(node, ast.Module) and not isinstance(node, ast.ClassDef):
                setattr(node, fld, self._block(v))
        return node


class FlipCmp(ast.NodeTransformer):
    FL = {ast.Eq: ast.Eq, ast.NotEq: ast.NotEq, ast.Lt: ast.Gt, ast.Gt: ast.Lt, ast.LtE: ast.GtE, ast.GtE: ast.LtE, ast.Is: ast.Is, ast.IsNot: ast.IsNot}

    def visit_Compare(self, n):
        self.generic_visit(n)
        if len(n.ops) == 1 and type(n.ops[0]) in self.FL and not isinstance(n.comparators[0], ast.Constant):
            return ast.copy_location(ast.Compare(left=n.comparators[0], ops=[self.FL[type(n.ops[0])]()], comparators=[n.left]), n)
        return n


class ToMatch(ast.NodeTransformer):
    """if/elif chains that compare one pure subject with constants / dotted names become `match` statements"""

    def visit_If(self, n):
        chain, cur = [], n
        while True:
            t = cur.test
            ok = isinstance(t, ast.Compare) and len(t.ops) == 1 and isinstance(t.ops[0], ast.Eq) and isinstance(t.left, (ast.Name, ast.Attribute)) \
                and (isinstance(t.comparators[0], ast.Attribute) or (isinstance(t.comparators[0], ast.Constant) and isinstance(t.comparators[0].value, (int, str))))
            if not ok or (chain and ast.dump(t.left) != ast.dump(chain[0][0].left)):
                break
            chain.append((t, cur.body))
            if len(cur.orelse) == 1 and isinstance(cur.orelse[0], ast.If):
                cur = cur.orelse[0]
            else:
                cur = None
                break
        if len(chain) < 2 or cur is not None and cur is not n and False:
            self.generic_visit(n)
            return n
        # `cur` is the first link that is not part of the chain (None when the chain ended with a plain else / nothing)
        tail = None
        last = n
        for _ in range(len(chain) - 1):
            last = last.orelse[0]
        rest = last.orelse if cur is None else [cur]
        cases = [ast.match_case(pattern=ast.MatchValue(value=t.comparators[0]), guard=None, body=[self.visit(b) for b in body]) for t, body in chain]
        if rest:
            cases.append(ast.match_case(pattern=ast.MatchAs(pattern=None, name=None), guard=None, body=[self.visit(b) for b in rest]))
        return ast.copy_location(ast.Match(subject=chain[0][0].left, cases=cases), n)



class Walrus(ast.NodeTransformer):
    """x = CALL(...)  /  if <test whose leading operand is x>:   ->   if <test with (x := CALL(...))>:"""

    def _block(self, stmts):
        out = []
        i = 0
        while i < len(stmts):
            s = stmts[i]
            nxt = stmts[i + 1] if i + 1 < len(stmts) else None
            if isinstance(s, ast.Assign) and len(s.targets) == 1 and isinstance(s.targets[0], ast.Name) and isinstance(s.value, ast.Call) and isinstance(nxt, ast.If):
                x = s.targets[0].id
                t = nxt.test
                lead = t
                path = []
                while True:
                    if isinstance(lead, ast.Compare):
                        path.append((lead, "left")); lead = lead.left
                    elif isinstance(lead, ast.UnaryOp) and isinstance(lead.op, ast.Not):
                        path.append((lead, "operand")); lead = lead.operand
                    elif isinstance(lead, ast.BoolOp):
                        path.append((lead, 0)); lead = lead.values[0]
                    else:
                        break
                uses_in_test = sum(1 for n in ast.walk(t) if isinstance(n, ast.Name) and n.id == x)
                if isinstance(lead, ast.Name) and lead.id == x and uses_in_test == 1:
                    w = ast.NamedExpr(target=ast.Name(id=x, ctx=ast.Store()), value=s.value)
                    if not path:
                        nxt.test = w
                    else:
                        par, fld = path[-1]
                        if fld == 0:
                            par.values[0] = w
                        else:
                            setattr(par, fld, w)
                    out.append(self.visit(nxt))
                    i += 2
                    continue
            out.append(self.visit(s))
            i += 1
        return out

    def generic_visit(self, node):
        for fld in ("body", "orelse", "finalbody"):
            v = getattr(node, fld, None)
            if isinstance(v, list) and v and isinstance(v[0], ast.stmt):
                setattr(node, fld, self._block(v))
        for h in getattr(node, "handlers", []) or []:
            h.body = self._block(h.body)
        return node


class TryElse(ast.NodeTransformer):
    """try: CALL; x.attr = CONST  except E: ...   ->   try: CALL  except E: ...  else: x.attr = CONST
    (trailing stores of constants into attributes of locals; handlers that could catch what such a store raises are left alone)"""

    def visit_Try(self, n):
        self.generic_visit(n)
        if n.orelse or not n.handlers or len(n.body) < 2:
            return n
        names = set()
        for h in n.handlers:
            if h.type is None:
                return n
            for t in (h.type.elts if isinstance(h.type, ast.Tuple) else [h.type]):
                names.add(ast.unparse(t).split(".")[-1])
        if names & {"Exception", "BaseException", "AttributeError", "TypeError", "ValueError"}:
            return n
        tail = []
        body = list(n.body)
        while len(body) > 1 and isinstance(body[-1], ast.Assign) and len(body[-1].targets) == 1 and isinstance(body[-1].targets[0], ast.Attribute) \
                and isinstance(body[-1].targets[0].value, ast.Name) and body[-1].targets[0].value.id != "self" and isinstance(body[-1].value, ast.Constant):
            tail.insert(0, body.pop())
        if tail:
            n.body = body
            n.orelse = tail
        return n


class BindMethods(ast.NodeTransformer):
    """in a method with a for loop: every `self.m(...)` call of a method m of the same class inside the loop goes through a
    local bound before the loop (`m_ = self.m`)"""

    def visit_ClassDef(self, c):
        self.methods = {m.name for m in c.body if isinstance(m, ast.FunctionDef)}
        self.props = {m.name for m in c.body if isinstance(m, ast.FunctionDef) and m.decorator_list}
        self.generic_visit(c)
        return c

    def visit_FunctionDef(self, f):
        if not getattr(self, "methods", None) or not f.args.args or f.args.args[0].arg != "self" or f.decorator_list:
            return f
        used = {n.id for n in ast.walk(f) if isinstance(n, ast.Name)}
        new_body = []
        for st in f.body:
            if isinstance(st, ast.For):
                names = {}
                for n in ast.walk(st):
                    if isinstance(n, ast.Call) and isinstance(n.func, ast.Attribute) and isinstance(n.func.value, ast.Name) and n.func.value.id == "self" \
                            and n.func.attr in self.methods and n.func.attr not in self.props and not any(isinstance(x, (ast.Lambda, ast.FunctionDef)) for x in ast.walk(st)):
                        loc = n.func.attr + "_b"
                        if loc in used:
                            continue
                        names[n.func.attr] = loc
                        n.func = ast.Name(id=loc, ctx=ast.Load())
                for m, loc in names.items():
                    new_body.append(ast.Assign(targets=[ast.Name(id=loc, ctx=ast.Store())], value=ast.Attribute(value=ast.Name(id="self", ctx=ast.Load()), attr=m, ctx=ast.Load())))
            new_body.append(st)
        f.body = new_body
        return f



class Chained(ast.NodeTransformer):
    """x < A or x > B  ->  not A <= x <= B      (same operand x, plain names / attributes / constants only)"""

    def visit_BoolOp(self, n):
        self.generic_visit(n)
        if isinstance(n.op, ast.Or) and len(n.values) == 2 and all(isinstance(v, ast.Compare) and len(v.ops) == 1 for v in n.values):
            a, b = n.values
            simple = lambda e: isinstance(e, (ast.Name, ast.Attribute, ast.Constant))
            if isinstance(a.ops[0], ast.Lt) and isinstance(b.ops[0], ast.Gt) and ast.unparse(a.left) == ast.unparse(b.left) and all(simple(e) for e in (a.left, a.comparators[0], b.comparators[0])):
                return ast.UnaryOp(op=ast.Not(), operand=ast.Compare(left=a.comparators[0], ops=[ast.LtE(), ast.LtE()], comparators=[a.left, b.comparators[0]]))
        return n


class NextFind(ast.NodeTransformer):
    """for v in IT: if C(v.attr ...): raise X   ->   v = next((v for v in IT if C), None); if v is not None: raise X"""

    def _block(self, stmts):
        out = []
        for s in stmts:
            s = self.visit(s)
            if isinstance(s, ast.For) and not s.orelse and isinstance(s.target, ast.Name) and len(s.body) == 1 and isinstance(s.body[0], ast.If) and not s.body[0].orelse \
                    and s.body[0].body and isinstance(s.body[0].body[-1], ast.Raise) and all(isinstance(b, (ast.Raise, ast.Expr)) for b in s.body[0].body) \
                    and any(isinstance(n, ast.Attribute) and isinstance(n.value, ast.Name) and n.value.id == s.target.id for n in ast.walk(s.body[0].test)) \
                    and not any(isinstance(n, (ast.Await, ast.Yield, ast.NamedExpr)) for n in ast.walk(s)):
                v = s.target.id
                gen = ast.GeneratorExp(elt=ast.Name(id=v, ctx=ast.Load()), generators=[ast.comprehension(target=ast.Name(id=v, ctx=ast.Store()), iter=s.iter, ifs=[s.body[0].test], is_async=0)])
                out.append(ast.Assign(targets=[ast.Name(id=v, ctx=ast.Store())], value=ast.Call(func=ast.Name(id="next", ctx=ast.Load()), args=[gen, ast.Constant(value=None)], keywords=[])))
                out.append(ast.If(test=ast.Compare(left=ast.Name(id=v, ctx=ast.Load()), ops=[ast.IsNot()], comparators=[ast.Constant(value=None)]), body=s.body[0].body, orelse=[]))
                continue
            out.append(s)
        return out

    def generic_visit(self, node):
        for fld in ("body", "orelse", "finalbody"):
            val = getattr(node, fld, None)
            if isinstance(val, list) and val and isinstance(val[0], ast.stmt):
                setattr(node, fld, self._block(val))
        for h in getattr(node, "handlers", []) or []:
            h.body = self._block(h.body)
        return node



class StaticMethods(ast.NodeTransformer):
    """a method that never mentions `self` becomes a @staticmethod (calls through self / the class keep working)"""

    def visit_ClassDef(self, c):
        self.generic_visit(c)
        # names also defined in other classes may be overridden / called through other receivers: leave those alone
        for m in c.body:
            if isinstance(m, ast.FunctionDef) and not m.decorator_list and m.args.args and m.args.args[0].arg == "self" and not m.name.startswith("__") \
                    and not any(isinstance(n, ast.Name) and n.id == "self" for n in ast.walk(m)) and not any(isinstance(n, ast.Call) and isinstance(n.func, ast.Name) and n.func.id == "super" for n in ast.walk(m)) \
                    and m.name in getattr(self, "unique", set()):
                m.args.args = m.args.args[1:]
                m.decorator_list = [ast.Name(id="staticmethod", ctx=ast.Load())]
        return c



class IndexLoop(ast.NodeTransformer):
    """for n in range(len(L)): v = L[n]; ...  (n not used otherwise)   ->   for v in L: ..."""

    def visit_For(self, f):
        self.generic_visit(f)
        it = f.iter
        if isinstance(f.target, ast.Name) and isinstance(it, ast.Call) and isinstance(it.func, ast.Name) and it.func.id == "range" and len(it.args) == 1 \
                and isinstance(it.args[0], ast.Call) and isinstance(it.args[0].func, ast.Name) and it.args[0].func.id == "len" and len(it.args[0].args) == 1 \
                and isinstance(it.args[0].args[0], ast.Name) and f.body and isinstance(f.body[0], ast.Assign) and len(f.body[0].targets) == 1 and isinstance(f.body[0].targets[0], ast.Name) \
                and isinstance(f.body[0].value, ast.Subscript) and isinstance(f.body[0].value.value, ast.Name) and f.body[0].value.value.id == it.args[0].args[0].id \
                and isinstance(f.body[0].value.slice, ast.Name) and f.body[0].value.slice.id == f.target.id:
            n, L = f.target.id, it.args[0].args[0].id
            rest = f.body[1:]
            if not any(isinstance(x, ast.Name) and x.id in (n,) for b in rest for x in ast.walk(b)) and not any(isinstance(x, ast.Name) and x.id == L and isinstance(x.ctx, ast.Store) for b in rest for x in ast.walk(b)) and rest:
                f.target = f.body[0].targets[0]
                f.iter = ast.Name(id=L, ctx=ast.Load())
                f.body = rest
        return f


class AliasInitAttrs(ast.NodeTransformer):
    """in a method that contains a loop: `self.X` (X assigned in __init__ only, program wide, and read at least twice) is bound to a
    local at the top of the method and read through it"""

    def visit_FunctionDef(self, f):
        if not f.args.args or f.args.args[0].arg != "self" or f.name == "__init__" or f.decorator_list or not any(isinstance(n, (ast.For, ast.While)) for n in ast.walk(f)):
            return f
        if any(isinstance(n, (ast.Lambda, ast.FunctionDef, ast.GeneratorExp, ast.ListComp, ast.SetComp, ast.DictComp)) for b in f.body for n in ast.walk(b)):
            return f
        reads = {}
        for n in ast.walk(f):
            if isinstance(n, ast.Attribute) and isinstance(n.value, ast.Name) and n.value.id == "self" and isinstance(n.ctx, ast.Load) and n.attr in self.stable:
                reads[n.attr] = reads.get(n.attr, 0) + 1
        used = {n.id for n in ast.walk(f) if isinstance(n, ast.Name)}
        pick = {a: a + "_l" for a, k in reads.items() if k >= 2 and a + "_l" not in used}
        if not pick:
            return f

        class R(ast.NodeTransformer):
            def visit_Attribute(self_, n):
                self_.generic_visit(n)
                if isinstance(n.value, ast.Name) and n.value.id == "self" and isinstance(n.ctx, ast.Load) and n.attr in pick:
                    return ast.Name(id=pick[n.attr], ctx=ast.Load())
                return n

        doc = f.body[:1] if f.body and isinstance(f.body[0], ast.Expr) and isinstance(f.body[0].value, ast.Constant) else []
        rest = [R().visit(b) for b in f.body[len(doc):]]
        binds = [ast.Assign(targets=[ast.Name(id=l, ctx=ast.Store())], value=ast.Attribute(value=ast.Name(id="self", ctx=ast.Load()), attr=a, ctx=ast.Load())) for a, l in sorted(pick.items())]
        f.body = doc + binds + rest
        return f



class EffectComprehension(ast.NodeTransformer):
    """for v in IT: self.m(..v..)   (single call statement, no else)   ->   [self.m(..v..) for v in IT]"""

    def visit_For(self, f):
        self.generic_visit(f)
        if not f.orelse and isinstance(f.target, ast.Name) and len(f.body) == 1 and isinstance(f.body[0], ast.Expr) and isinstance(f.body[0].value, ast.Call) \
                and isinstance(f.body[0].value.func, ast.Attribute) and isinstance(f.body[0].value.func.value, ast.Name) and f.body[0].value.func.value.id == "self" \
                and not any(isinstance(n, (ast.Await, ast.Yield, ast.YieldFrom, ast.NamedExpr)) for n in ast.walk(f)):
            return ast.Expr(value=ast.ListComp(elt=f.body[0].value, generators=[ast.comprehension(target=f.target, iter=f.iter, ifs=[], is_async=0)]))
        return f



class IsinstanceSplit(ast.NodeTransformer):
    """isinstance(x, (A, B))  ->  isinstance(x, A) or isinstance(x, B)     (x a plain name / attribute path)"""

    def visit_Call(self, n):
        self.generic_visit(n)
        if isinstance(n.func, ast.Name) and n.func.id == "isinstance" and len(n.args) == 2 and isinstance(n.args[1], ast.Tuple) and len(n.args[1].elts) >= 2 \
                and isinstance(n.args[0], (ast.Name, ast.Attribute)) and not n.keywords:
            return ast.BoolOp(op=ast.Or(), values=[ast.Call(func=ast.Name(id="isinstance", ctx=ast.Load()), args=[n.args[0], e], keywords=[]) for e in n.args[1].elts])
        return n


class StrConcat(ast.NodeTransformer):
    """f"..{a}.."  (plain fields only)  ->  ".." + str(a) + ".."     (only for fields that are names / attribute paths; log and error texts)"""

    def visit_JoinedStr(self, n):
        if not n.values or not all(isinstance(v, ast.Constant) or (isinstance(v, ast.FormattedValue) and v.conversion == -1 and v.format_spec is None and isinstance(v.value, (ast.Name, ast.Attribute))) for v in n.values):
            return n
        if not any(isinstance(v, ast.FormattedValue) for v in n.values) or len(n.values) > 6:
            return n
        parts = [v if isinstance(v, ast.Constant) else ast.Call(func=ast.Name(id="format", ctx=ast.Load()), args=[v.value], keywords=[]) for v in n.values]
        e = parts[0] if isinstance(parts[0], ast.Constant) or len(parts) > 1 else parts[0]
        if not isinstance(parts[0], ast.Constant):
            e = ast.BinOp(left=ast.Constant(value=""), op=ast.Add(), right=parts[0])
        for p_ in parts[1:]:
            e = ast.BinOp(left=e, op=ast.Add(), right=p_)
        return e



class NotCmp(ast.NodeTransformer):
    """a != b -> not a == b ;  a not in b -> not a in b ;  a is not b -> not a is b"""

    def visit_Compare(self, n):
        self.generic_visit(n)
        if len(n.ops) == 1 and isinstance(n.ops[0], (ast.NotEq, ast.NotIn, ast.IsNot)):
            pos = {ast.NotEq: ast.Eq, ast.NotIn: ast.In, ast.IsNot: ast.Is}[type(n.ops[0])]()
            return ast.UnaryOp(op=ast.Not(), operand=ast.Compare(left=n.left, ops=[pos], comparators=n.comparators))
        return n


class DeMorgan(ast.NodeTransformer):
    """if a or b:  ->  if not (not a and not b):      (tests of if statements only)"""

    def visit_If(self, n):
        self.generic_visit(n)
        if isinstance(n.test, ast.BoolOp) and isinstance(n.test.op, ast.Or):
            n.test = ast.UnaryOp(op=ast.Not(), operand=ast.BoolOp(op=ast.And(), values=[ast.UnaryOp(op=ast.Not(), operand=v) for v in n.test.values]))
        return n


class ReturnNone(ast.NodeTransformer):
    def visit_Return(self, n):
        if n.value is None:
            n.value = ast.Constant(value=None)
        return n


class KeywordArgs(ast.NodeTransformer):
    """self.m(a, b) -> self.m(p=a, q=b) for methods m of the same class with plain positional parameters (unique method name program wide)"""

    def visit_ClassDef(self, c):
        self.sig = {m.name: [a.arg for a in m.args.args[1:]] for m in c.body if isinstance(m, ast.FunctionDef) and not m.args.vararg and not m.args.kwarg and not m.args.posonlyargs
                    and not m.decorator_list and m.args.args and m.args.args[0].arg == "self" and m.name in self.unique}
        self.generic_visit(c)
        self.sig = {}
        return c

    def visit_Call(self, n):
        self.generic_visit(n)
        sig = getattr(self, "sig", {})
        if isinstance(n.func, ast.Attribute) and isinstance(n.func.value, ast.Name) and n.func.value.id == "self" and n.func.attr in sig and n.args \
                and not any(isinstance(a, ast.Starred) for a in n.args) and len(n.args) <= len(sig[n.func.attr]) and all(k.arg for k in n.keywords):
            names = sig[n.func.attr]
            n.keywords = [ast.keyword(arg=names[i], value=a) for i, a in enumerate(n.args)] + n.keywords
            n.args = []
        return n


def hoist_attrs(trees):
    """in every method: `self.<attr>` that is bound only in __init__ (never rebound anywhere in the program) and read at least
    twice is read once into a local at the top of the method (an alias of the same object)"""
    import copy
    rebound = set()
    for t in trees.values():
        for c in ast.walk(t):
            if isinstance(c, ast.ClassDef):
                for m in c.body:
                    if isinstance(m, ast.FunctionDef) and m.name != "__init__":
                        for n in ast.walk(m):
                            if isinstance(n, ast.Attribute) and isinstance(n.ctx, (ast.Store, ast.Del)):
                                rebound.add(n.attr)
        for n in ast.walk(t):
            if isinstance(n, ast.Attribute) and isinstance(n.ctx, (ast.Store, ast.Del)) and not (isinstance(n.value, ast.Name) and n.value.id == "self"):
                rebound.add(n.attr)
    for t in trees.values():
        for c in [c for c in ast.walk(t) if isinstance(c, ast.ClassDef)]:
            inits = {n.attr for m in c.body if isinstance(m, ast.FunctionDef) and m.name == "__init__" for n in ast.walk(m)
                     if isinstance(n, ast.Attribute) and isinstance(n.ctx, ast.Store) and isinstance(n.value, ast.Name) and n.value.id == "self"}
            meths = {m.name for m in c.body if isinstance(m, ast.FunctionDef)}
            for m in c.body:
                if not isinstance(m, ast.FunctionDef) or m.name == "__init__" or m.decorator_list or not m.args.args or m.args.args[0].arg != "self":
                    continue
                if any(isinstance(x, (ast.FunctionDef, ast.Lambda, ast.Yield, ast.YieldFrom, ast.ListComp, ast.GeneratorExp, ast.SetComp, ast.DictComp)) for x in ast.walk(m) if x is not m):
                    continue
                uses = {}
                for n in ast.walk(m):
                    if isinstance(n, ast.Attribute) and isinstance(n.ctx, ast.Load) and isinstance(n.value, ast.Name) and n.value.id == "self" and n.attr in inits \
                            and n.attr not in rebound and n.attr not in meths:
                        uses.setdefault(n.attr, []).append(n)
                names = {x.id for x in ast.walk(m) if isinstance(x, ast.Name)} | {a.arg for a in m.args.args}
                pre = []
                for attr, ns in sorted(uses.items()):
                    if len(ns) < 2:
                        continue
                    loc = attr.strip("_") + "_h"
                    if loc in names:
                        continue
                    pre.append(ast.Assign(targets=[ast.Name(id=loc, ctx=ast.Store())], value=ast.Attribute(value=ast.Name(id="self", ctx=ast.Load()), attr=attr, ctx=ast.Load())))

                    class R(ast.NodeTransformer):
                        def visit_Attribute(self, n, attr=attr, loc=loc):
                            self.generic_visit(n)
                            if isinstance(n.ctx, ast.Load) and isinstance(n.value, ast.Name) and n.value.id == "self" and n.attr == attr:
                                return ast.copy_location(ast.Name(id=loc, ctx=ast.Load()), n)
                            return n

                    m.body = [R().visit(b) for b in m.body]
                k = 1 if m.body and isinstance(m.body[0], ast.Expr) and isinstance(m.body[0].value, ast.Constant) and isinstance(m.body[0].value.value, str) else 0
                m.body = m.body[:k] + pre + m.body[k:]


def private_methods(trees):
    names = set()
    for t in trees.values():
        for c in ast.walk(t):
            if isinstance(c, ast.ClassDef):
                for m in c.body:
                    if isinstance(m, ast.FunctionDef) and m.name.startswith("_") and not m.name.startswith("__") and not m.decorator_list:
                        names.add(m.name)
    # a name that is also used as a plain attribute / in strings elsewhere is left alone
    return names


def private_attrs(trees):
    names = set()
    for t in trees.values():
        for c in ast.walk(t):
            if isinstance(c, ast.ClassDef):
                defined = {m.name for m in c.body if isinstance(m, ast.FunctionDef)}
                for m in c.body:
                    if isinstance(m, ast.FunctionDef) and m.name == "__init__":
                        for n in ast.walk(m):
                            if isinstance(n, ast.Attribute) and isinstance(n.ctx, ast.Store) and isinstance(n.value, ast.Name) and n.value.id == "self" \
                                    and n.attr.startswith("_") and not n.attr.startswith("__") and n.attr not in defined:
                                names.add(n.attr)
    return names


def rename_attrs(trees, names, suffix):
    strings = {n.value for t in trees.values() for n in ast.walk(t) if isinstance(n, ast.Constant) and isinstance(n.value, str)}
    names = {n for n in names if n not in strings and "_" + n not in strings}
    # ctypes / descriptor protocol names and names shared with properties are not touched
    props = {m.name for t in trees.values() for c in ast.walk(t) if isinstance(c, ast.ClassDef) for m in c.body if isinstance(m, ast.FunctionDef) and m.decorator_list}
    names -= props | {"_fields_", "_type_", "_length_", "_ctype", "_pack_"}
    for t in trees.values():
        for n in ast.walk(t):
            if isinstance(n, ast.Attribute) and n.attr in names:
                n.attr += suffix
            elif isinstance(n, ast.FunctionDef) and n.name in names:
                n.name += suffix
    return names


def make(kind, dst):
    shutil.copytree(os.path.join(REPO, "src"), os.path.join(dst, "src"), ignore=shutil.ignore_patterns("__pycache__", "*.pyc", "*.egg-info"))
    trees = {p: ast.parse(open(p, encoding="utf-8").read()) for p in files(dst)}
    if kind == "unparse":
        pass
    elif kind == "locals":
        for t in trees.values():
            Locals().visit(t)
    elif kind == "invert":
        for p, t in trees.items():
            trees[p] = Invert().visit(t)
    elif kind == "splitand":
        for p, t in trees.items():
            trees[p] = SplitAnd().visit(t)
    elif kind == "flags":
        for p, t in trees.items():
            trees[p] = Flags().visit(t)
    elif kind == "whiletrue":
        for p, t in trees.items():
            trees[p] = WhileTrue().visit(t)
    elif kind == "guard":
        for p, t in trees.items():
            trees[p] = Guard().visit(t)
    elif kind == "ternary":
        for p, t in trees.items():
            trees[p] = Ternary().visit(t)
    elif kind == "augassign":
        for p, t in trees.items():
            trees[p] = AugToAssign().visit(t)
    elif kind == "format":
        for p, t in trees.items():
            trees[p] = Format().visit(t)
    elif kind == "percent":
        for p, t in trees.items():
            trees[p] = Percent().visit(t)
    elif kind == "continue":
        for p, t in trees.items():
            trees[p] = EarlyContinue().visit(t)
    elif kind == "elsereturn":
        for p, t in trees.items():
            trees[p] = ElseAfterReturn().visit(t)
    elif kind == "flipcmp":
        for p, t in trees.items():
            trees[p] = FlipCmp().visit(t)
    elif kind == "match":
        for p, t in trees.items():
            trees[p] = ToMatch().visit(t)
    elif kind == "walrus":
        for p, t in trees.items():
            trees[p] = Walrus().visit(t)
    elif kind == "tryelse":
        for p, t in trees.items():
            trees[p] = TryElse().visit(t)
    elif kind == "bindmethods":
        for p, t in trees.items():
            trees[p] = BindMethods().visit(t)
    elif kind == "chained":
        for p, t in trees.items():
            trees[p] = Chained().visit(t)
    elif kind == "nextfind":
        for p, t in trees.items():
            trees[p] = NextFind().visit(t)
    elif kind == "static":
        counts = {}
        for t in trees.values():
            for c in ast.walk(t):
                if isinstance(c, ast.ClassDef):
                    for m in c.body:
                        if isinstance(m, ast.FunctionDef):
                            counts[m.name] = counts.get(m.name, 0) + 1
        sm = StaticMethods()
        sm.unique = {k for k, v in counts.items() if v == 1}
        for p, t in trees.items():
            trees[p] = sm.visit(t)
    elif kind == "indexloop":
        for p, t in trees.items():
            trees[p] = IndexLoop().visit(t)
    elif kind == "aliasinit":
        stored_in = {}
        for t in trees.values():
            for fn in ast.walk(t):
                if isinstance(fn, (ast.FunctionDef, ast.AsyncFunctionDef)):
                    for n in ast.walk(fn):
                        if isinstance(n, ast.Attribute) and isinstance(n.ctx, (ast.Store, ast.Del)):
                            stored_in.setdefault(n.attr, set()).add(fn.name)
        ai = AliasInitAttrs()
        ai.stable = {a for a, fs in stored_in.items() if fs == {"__init__"}}
        for p, t in trees.items():
            trees[p] = ai.visit(t)
    elif kind == "effectcomp":
        for p, t in trees.items():
            trees[p] = EffectComprehension().visit(t)
    elif kind == "isinsplit":
        for p, t in trees.items():
            trees[p] = IsinstanceSplit().visit(t)
    elif kind == "strconcat":
        for p, t in trees.items():
            # only raise / logging texts: the message of an exception or of a log call
            class Only(ast.NodeTransformer):
                def visit_Raise(self_, r):
                    return StrConcat().visit(r)
                def visit_Expr(self_, x):
                    if isinstance(x.value, ast.Call) and isinstance(x.value.func, ast.Attribute) and x.value.func.attr in ("error", "warning", "info", "debug", "critical"):
                        return StrConcat().visit(x)
                    return x
            trees[p] = Only().visit(t)
    elif kind == "notcmp":
        for p, t in trees.items():
            trees[p] = NotCmp().visit(t)
    elif kind == "demorgan":
        for p, t in trees.items():
            trees[p] = DeMorgan().visit(t)
    elif kind == "returnnone":
        for p, t in trees.items():
            trees[p] = ReturnNone().visit(t)
    elif kind == "kwargs":
        counts = {}
        for t in trees.values():
            for c in ast.walk(t):
                if isinstance(c, ast.ClassDef):
                    for m in c.body:
                        if isinstance(m, ast.FunctionDef):
                            counts[m.name] = counts.get(m.name, 0) + 1
        ka = KeywordArgs()
        ka.unique = {k for k, v in counts.items() if v == 1}
        for p, t in trees.items():
            trees[p] = ka.visit(t)
    elif kind == "hoist":
        hoist_attrs(trees)
    elif kind == "methods":
        rename_attrs(trees, private_methods(trees), "_x")
    elif kind == "attrs":
        rename_attrs(trees, private_attrs(trees), "_x")
    else:
        raise SystemExit(f"unknown kind {kind}")
    for p, t in trees.items():
        ast.fix_missing_locations(t)
        src = ast.unparse(t)
        compile(src, p, "exec")
        open(p, "w", encoding="utf-8").write(src + "\n")


def main():
    kinds = sys.argv[1:] or ["unparse", "locals", "invert", "splitand", "methods", "attrs", "flags", "whiletrue", "guard", "ternary", "augassign", "format", "percent", "continue", "elsereturn", "flipcmp", "hoist", "match", "walrus", "tryelse", "bindmethods", "chained", "nextfind", "static", "indexloop", "aliasinit", "effectcomp", "isinsplit", "strconcat", "notcmp", "demorgan", "returnnone", "kwargs"]
    bad = 0
    for kind in kinds:
        tmp = tempfile.mkdtemp(prefix=f"pyrtma-mech-{kind}-")
        try:
            make(kind, tmp)
            procs = {p: subprocess.Popen([os.path.join(VERIF, "check"), p, "--tier", "quick", "--root", tmp, "--evidence", "none", "--quiet"],
                                         stdout=subprocess.PIPE, stderr=subprocess.STDOUT, text=True, cwd=VERIF) for p in PROPS}
            res = {}
            for p, pr in procs.items():
                out, _ = pr.communicate()
                res[p] = (pr.returncode, [l for l in out.splitlines() if l.startswith(("FAIL", "ANALYSIS"))][:2])
            noisy = {p: v for p, v in res.items() if v[0] != 0}
            print(f"{kind:9s}: " + ("all 19 checks silent" if not noisy else f"{len(noisy)} check(s) not silent"))
            for p, (rc, lines) in sorted(noisy.items()):
                bad += 1
                for l in lines:
                    print(f"   [{p} rc={rc}] {l[:260]}")
        finally:
            shutil.rmtree(tmp, ignore_errors=True)
    return 1 if bad else 0


if __name__ == "__main__":
    sys.exit(main())
