#!/usr/bin/env python3
"""Writes sa/known_functions.json: the functions (module -> qualified names) of the tree the rules were written
against (/repo HEAD).  sa/inline.py expands calls to functions that are NOT in this vocabulary."""
import ast, json, os, sys
V = os.path.dirname(os.path.dirname(os.path.abspath(__file__)))
root = sys.argv[1] if len(sys.argv) > 1 else "/repo"
src = os.path.join(root, "src", "pyrtma")
out = {}
for dp, dn, fns in os.walk(src):
    dn[:] = sorted(d for d in dn if d != "__pycache__")
    for fn in sorted(fns):
        if not fn.endswith(".py"):
            continue
        p = os.path.join(dp, fn)
        rel = os.path.relpath(p, src)[:-3].replace(os.sep, ".")
        if rel.endswith("__init__"):
            rel = rel[:-len("__init__")].rstrip(".")
        mod = "pyrtma" + ("." + rel if rel else "")
        t = ast.parse(open(p, encoding="utf-8").read())
        names = []

        def data_names(body, prefix):
            for st in body:
                tg = st.targets if isinstance(st, ast.Assign) else ([st.target] if isinstance(st, ast.AnnAssign) else [])
                for x in tg:
                    if isinstance(x, ast.Name):
                        names.append(f"{prefix}{x.id}")

        data_names(t.body, "=")
        for st in t.body:
            if isinstance(st, (ast.FunctionDef, ast.AsyncFunctionDef)):
                names.append(st.name)
            elif isinstance(st, ast.ClassDef):
                names += [f"{st.name}.{m.name}" for m in st.body if isinstance(m, (ast.FunctionDef, ast.AsyncFunctionDef))]
                data_names(st.body, f"={st.name}.")
        out[mod] = sorted(set(names))
# body signatures of methods / functions, insensitive to the names of the module's own functions: lets the loader
# recognise a function that was merely renamed
sys.path.insert(0, V)
from sa.inline import body_signature, attr_signature  # noqa: E402

sigs = {}
asigs = {}
for dp, dn, fns in os.walk(src):
    dn[:] = sorted(d for d in dn if d != "__pycache__")
    for fn in sorted(fns):
        if not fn.endswith(".py") or fn == "core_defs.py":
            continue
        p = os.path.join(dp, fn)
        rel = os.path.relpath(p, src)[:-3].replace(os.sep, ".")
        if rel.endswith("__init__"):
            rel = rel[:-len("__init__")].rstrip(".")
        mod = "pyrtma" + ("." + rel if rel else "")
        t = ast.parse(open(p, encoding="utf-8").read())
        fnames = set(n.split(".")[-1] for n in out[mod] if not n.startswith("="))
        d = {}
        da = {}
        for st in t.body:
            if isinstance(st, ast.FunctionDef):
                d[st.name] = body_signature(st, fnames)
                da[st.name] = list(attr_signature(st, fnames))
            elif isinstance(st, ast.ClassDef):
                for m in st.body:
                    if isinstance(m, ast.FunctionDef):
                        d[f"{st.name}.{m.name}"] = body_signature(m, fnames)
                        da[f"{st.name}.{m.name}"] = list(attr_signature(m, fnames))
        sigs[mod] = d
        asigs[mod] = da
sigs["#attrs"] = asigs
out["#signatures"] = sigs
json.dump(out, open(os.path.join(V, "sa", "known_functions.json"), "w"), indent=0, sort_keys=True)
print(sum(len(v) for k, v in out.items() if not k.startswith("#")), "names in", len(out) - 1, "modules")
