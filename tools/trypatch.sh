#!/bin/sh
# tools/trypatch.sh <patch.diff> [Cxx ...]  - apply a patch to a scratch export of /repo HEAD and run the quick checks on it (never touches /repo)
cd "$(dirname "$0")/.." || exit 2
P=$1; shift
T=$(mktemp -d /tmp/try.XXXXXX)
git -C /repo archive HEAD | tar -x -C "$T"
( cd "$T" && git init -q . 2>/dev/null && git apply "$P" ) || { echo "patch does not apply"; rm -rf "$T"; exit 2; }
IDS=${@:-C01 C02 C03 C04 C05 C06 C07 C08 C09 C10 C11 C12 C13 C14 C15 C16 C17 C18 C19}
for p in $IDS; do
  ./check $p --tier quick --root "$T" --evidence none --quiet > "$T/.out" 2>&1; rc=$?
  [ $rc -ne 0 ] && { echo "$p rc=$rc"; grep "^FAIL\|^ANALYSIS" "$T/.out" | head -${TRYLINES:-4} | cut -c1-${TRYCOLS:-330}; }
done
echo "done"
rm -rf "$T"
