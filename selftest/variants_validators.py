"""Variants for C09 (validators) and C10 (serialisation)."""
V = "src/pyrtma/validators.py"
MB = "src/pyrtma/message_base.py"
MS = "src/pyrtma/message.py"

VARIANTS = [
    dict(name="c09-revert-finally", property="C09", rule="C09-C", file=V,
         old="        try:\n            yield\n        finally:\n            _VALIDATION_ENABLED.reset(token)", new="        yield\n        _VALIDATION_ENABLED.reset(token)"),
    dict(name="c09-revert-elementwise", property="C09", rule="C09-Q", file=V,
         old="            if any(math.isinf(self._ctype(v).value) for v in value):", new="            if math.isinf(self._ctype(max(value)).value) or math.isinf(self._ctype(min(value)).value):"),
    dict(name="c09-int-many-no-type-check", property="C09", rule="C09-Q", file=V,
         old="        # Check all values\n        if any(not isinstance(v, int) for v in value):\n            raise TypeError(f\"Expected {value} to contain all int types.\")\n", new=""),
    dict(name="c09-struct-many-first-only", property="C09", rule="C09-Q", file=V,
         old="        if any(not isinstance(v, self._ctype) for v in value):\n            raise TypeError(f\"Expected {value} to be an {self._ctype.__name__}.\")", new="        if not isinstance(value[0], self._ctype):\n            raise TypeError(f\"Expected {value} to be an {self._ctype.__name__}.\")"),
    dict(name="c09-write-before-validate", property="C09", rule="C09-V", file=V,
         old="        if _VALIDATION_ENABLED.get():\n            self.validate_one(value)\n        # Note: ctypes already copies the data here\n        setattr(obj, self._private_name, value)",
         new="        setattr(obj, self._private_name, value)\n        if _VALIDATION_ENABLED.get():\n            self.validate_one(value)"),
    dict(name="c09-setitem-validate-dropped", property="C09", rule="C09-V", file=V,
         old="        if _VALIDATION_ENABLED.get():\n            if isinstance(value, abc.Iterable) or hasattr(value, \"__getitem__\"):\n                self.validate_many(value)\n            else:\n                self.validate_one(value)\n\n        getattr(self._bound_obj, self._private_name)[key] = value\n\n    def __len__(self) -> int:\n        return self._len\n\n    def __repr__(self) -> str:\n        return f\"ArrayField(",
         new="        if _VALIDATION_ENABLED.get():\n            if isinstance(value, abc.Iterable) or hasattr(value, \"__getitem__\"):\n                pass\n            else:\n                self.validate_one(value)\n\n        getattr(self._bound_obj, self._private_name)[key] = value\n\n    def __len__(self) -> int:\n        return self._len\n\n    def __repr__(self) -> str:\n        return f\"ArrayField("),
    dict(name="c09-validate-other-name", property="C09", rule="C09-V", file=V,
         old="    def __set__(self, obj: _P, value: Union[int, _C]):\n        if _VALIDATION_ENABLED.get():\n            self.validate_one(value)", new="    def __set__(self, obj: _P, value: Union[int, _C]):\n        if _VALIDATION_ENABLED.get():\n            self.validate_one(self._min)"),
    dict(name="c09-string-skip-when-short", property="C09", rule="C09-V", file=V,
         old="        if _VALIDATION_ENABLED.get():\n            self.validate_one(value)\n        setattr(obj, self._private_name, value.encode(\"ascii\"))", new="        if _VALIDATION_ENABLED.get() and len(value) > 4:\n            self.validate_one(value)\n        setattr(obj, self._private_name, value.encode(\"ascii\"))"),
    dict(name="c09-validation-inverted-flag", property="C09", rule="C09-V", file=V,
         old="    def __set__(self, obj: _P, value: Union[float, int, _C]):\n        if _VALIDATION_ENABLED.get():", new="    def __set__(self, obj: _P, value: Union[float, int, _C]):\n        if not _VALIDATION_ENABLED.get():"),
    dict(name="c09-second-flag-writer", property="C09", rule="C09-G", file=V,
         old="    def __repr__(self):\n        return f\"Byte(len=1) at 0x{id(self):016X}\"", new="    def __repr__(self):\n        _VALIDATION_ENABLED.set(False)\n        return f\"Byte(len=1) at 0x{id(self):016X}\""),
    dict(name="c09-default-off", property="C09", rule="C09-G", file=V,
         old="ContextVar(\"_VALIDATION_ENABLED\", default=True)", new="ContextVar(\"_VALIDATION_ENABLED\", default=False)"),
    dict(name="c09-bound-off-by-one", property="C09", rule="C09-W", file=V,
         old="    _min: ClassVar[int] = -(2**15)\n    _max: ClassVar[int] = 2**15 - 1", new="    _min: ClassVar[int] = -(2**15)\n    _max: ClassVar[int] = 2**15"),
    dict(name="c09-wrong-ctype", property="C09", rule="C09-W", file=V,
         old="        self._ctype: Type[ctypes._SimpleCData] = ctypes.c_uint32", new="        self._ctype: Type[ctypes._SimpleCData] = ctypes.c_int32"),
    dict(name="c09-new-validator-without-many", property="C09", rule="C09-E", file=V,
         old="_FV = TypeVar(\"_FV\", bound=FieldValidator)", new="class Flag(FieldValidator[_P, int], Generic[_P]):\n    def __get__(self, obj, objtype=None):\n        return getattr(obj, self._private_name)\n\n    def __set__(self, obj, value):\n        if _VALIDATION_ENABLED.get():\n            self.validate_one(value)\n        setattr(obj, self._private_name, value)\n\n    def validate_one(self, value):\n        if value not in (0, 1):\n            raise ValueError\n\n\n_FV = TypeVar(\"_FV\", bound=FieldValidator)"),
    dict(name="c09-silent-finally-reshaped", property="C09", expect="silent", file=V,
         old="    if not ignore:\n        token = _VALIDATION_ENABLED.set(False)\n        try:\n            yield\n        finally:\n            _VALIDATION_ENABLED.reset(token)\n    else:\n        yield  # dummy context",
         new="    if ignore:\n        yield  # dummy context\n        return\n    token = _VALIDATION_ENABLED.set(False)\n    try:\n        yield\n    finally:\n        _VALIDATION_ENABLED.reset(token)"),
    dict(name="c09-silent-all-form", property="C09", expect="silent", file=V,
         old="        # Check all values\n        if any(not isinstance(v, int) for v in value):\n            raise TypeError(f\"Expected {value} to contain all int types.\")", new="        if not all(isinstance(v, int) for v in value):\n            raise TypeError(f\"Expected {value} to contain all int types.\")"),
    # ---------------- C10 ----------------
    dict(name="c10-copy-from-buffer", property="C10", rule="C10-C", file=MB,
         old="        return cls.from_buffer_copy(m)", new="        return cls.from_buffer(m)"),
    dict(name="c10-message-copy-shares-data", property="C10", rule="C10-C", file=MS,
         old="            type(m.data).from_buffer_copy(m.data),", new="            m.data,"),
    dict(name="c10-version-guard-after-decode", property="C10", rule="C10-V", file=MS,
         old="        if hdr.version != 0 and hdr.version != msg_cls.type_hash:\n            raise InvalidMessageDefinition(\n                f\"Client's message definition does not match sender's version: {msg_cls.type_name}\"\n            )\n\n        msg_data = msg_cls.from_dict(d[\"data\"])",
         new="        msg_data = msg_cls.from_dict(d[\"data\"])\n        if hdr.version != 0 and hdr.version != msg_cls.type_hash:\n            raise InvalidMessageDefinition(\n                f\"Client's message definition does not match sender's version: {msg_cls.type_name}\"\n            )\n"),
    dict(name="c10-version-guard-weakened", property="C10", rule="C10-V", file=MS,
         old="        if hdr.version != 0 and hdr.version != msg_cls.type_hash:", new="        if hdr.version != 0 and hdr.version != msg_cls.type_hash and hdr.num_data_bytes != msg_cls.type_size:"),
    dict(name="c10-version-zero-refused", property="C10", rule="C10-V", file=MS,
         old="        if hdr.version != 0 and hdr.version != msg_cls.type_hash:", new="        if hdr.version != msg_cls.type_hash:"),
    dict(name="c10-decoder-case-dropped", property="C10", rule="C10-S", file=MB,
         old="            elif ftype._type_ is ctypes.c_char:\n                # list of characters is equivalent to str", new="            elif ftype._type_ is ctypes.c_wchar:\n                # list of characters is equivalent to str"),
    dict(name="c10-encoder-new-case", property="C10", rule="C10-S", file=MB,
         old="            # Int8 Array\n            elif ftype._type_ is ctypes.c_byte:", new="            elif ftype._type_ is ctypes.c_double:\n                data[name] = [repr(x) for x in getattr(obj, name)]\n            # Int8 Array\n            elif ftype._type_ is ctypes.c_byte:"),
    dict(name="c10-encoder-bytes-as-str", property="C10", rule="C10-S", file=MB,
         old="        if isinstance(o, (bytes, bytearray)):\n            return [int(x) for x in o]", new="        if isinstance(o, (bytes, bytearray)):\n            return o.hex()"),
    dict(name="c10-name-derivation-differs", property="C10", rule="C10-S", file=MB,
         old="    for _name, ftype, *_ in obj._fields_:\n        name = _name[1:] if _name[0] == \"_\" else _name\n        if issubclass(ftype, MessageBase):\n            _from_dict(", new="    for _name, ftype, *_ in obj._fields_:\n        name = _name.lstrip(\"_\")\n        if issubclass(ftype, MessageBase):\n            _from_dict("),
    dict(name="c10-silent-copy-via-constructor", property="C10", expect="silent", file=MS,
         old="        return Message(\n            type(m.header).from_buffer_copy(m.header),\n            type(m.data).from_buffer_copy(m.data),\n        )", new="        hdr_cls, data_cls = type(m.header), m.data.__class__\n        return cls(hdr_cls.from_buffer_copy(m.header), data_cls.from_buffer_copy(m.data))"),
    dict(name="c09-int-range-one-sided", property="C09", rule="C09-D", file=V,
         old="        if not (self._min <= int(value) <= self._max):", new="        if not (int(value) <= self._max):"),
    dict(name="c09-string-length-off-by-one", property="C09", rule="C09-D", file=V,
         old="        if len(value) > (self.len - 1):", new="        if len(value) > self.len:"),
    dict(name="c09-float-inf-only-positive", property="C09", rule="C09-D", file=V,
         old="        if math.isinf(self._ctype(value).value):\n            raise ValueError(", new="        if math.isinf(self._ctype(value).value) and value > 0:\n            raise ValueError("),
    dict(name="c09-byte-bytes-any-length", property="C09", rule="C09-D", file=V,
         old="        if len(value) != 1:\n            raise ValueError(f\"Expected {value!r} to be no longer than 1\")", new="        if len(value) > 4:\n            raise ValueError(f\"Expected {value!r} to be no longer than 1\")"),
    dict(name="c09-char-ascii-check-dropped", property="C09", rule="C09-D", file=V,
         old="        if len(value) > self.len:\n            raise ValueError(f'Expected \"{value}\" to be no longer than {self.len}')\n\n        if not value.isascii():\n            raise TypeError(f\"Expected {value} to only contain valid ascii points\")", new="        if len(value) > self.len:\n            raise ValueError(f'Expected \"{value}\" to be no longer than {self.len}')"),
    dict(name="c09-silent-range-as-two-tests", property="C09", expect="silent", file=V,
         old="        if not (self._min <= int(value) <= self._max):\n            raise ValueError(\n                f\"Expected {value} to be in range of {self._min} to {self._max}\"\n            )\n\n    def validate_many(self, value: Iterable[int]):", new="        if int(value) < self._min or int(value) > self._max:\n            raise ValueError(\n                f\"Expected {value} to be in range of {self._min} to {self._max}\"\n            )\n\n    def validate_many(self, value: Iterable[int]):"),
    dict(name="c10-signal-branch-skips-guard", property="C10", rule="C10-V", file=MS,
         old="        if hdr.version != 0 and hdr.version != msg_cls.type_hash:\n            raise InvalidMessageDefinition(\n                f\"Client's message definition does not match sender's version: {msg_cls.type_name}\"\n            )\n\n        msg_data = msg_cls.from_dict(d[\"data\"])",
         new="        if msg_cls.type_size == 0:\n            msg_data = msg_cls()\n        else:\n            if hdr.version != 0 and hdr.version != msg_cls.type_hash:\n                raise InvalidMessageDefinition(\n                    f\"Client's message definition does not match sender's version: {msg_cls.type_name}\"\n                )\n            msg_data = msg_cls.from_dict(d[\"data\"])"),
    dict(name="c10-silent-guard-in-local", property="C10", expect="silent", file=MS,
         old="        if hdr.version != 0 and hdr.version != msg_cls.type_hash:\n            raise InvalidMessageDefinition(", new="        mismatch = hdr.version != 0 and hdr.version != msg_cls.type_hash\n        if mismatch:\n            raise InvalidMessageDefinition("),
    dict(name="c09-ctypes-array-fast-path", property="C09", rule="C09-Q", file=V,
         old="        # Check all values\n        if any(not isinstance(v, int) for v in value):", new="        if isinstance(value, ctypes.Array) and ctypes.sizeof(value._type_) == self._size:\n            return\n\n        # Check all values\n        if any(not isinstance(v, int) for v in value):"),
    dict(name="c03-lenient-name-decode", property="C03", rule="C03-T", file=V,
         old='        return getattr(obj, self._private_name).decode("ascii")', new='        return getattr(obj, self._private_name).decode("ascii", errors="replace")'),
    dict(name="c10-decoder-defaults-falsy-scalars", property="C10", rule="C10-S", file=MB,
         old="        else:\n            setattr(obj, name, data[name])", new="        else:\n            setattr(obj, name, data[name] or 0)"),
    dict(name="c10-silent-decoder-value-local", property="C10", expect="silent", file=MB,
         old="        else:\n            setattr(obj, name, data[name])", new="        else:\n            value = data[name]\n            setattr(obj, name, value)"),
    dict(name="c09-array-copy-reads-destination-name", property="C09", rule="C09-B",
         edits=[dict(file=V, old="getattr(value._bound_obj, value._private_name)", new="getattr(value._bound_obj, self._private_name)", count=5)]),

    # ---------------- wave 5 ----------------
    dict(name="c09-bytes-folded-by-key-not-length", property="C09", rule="C09-L", file=V,
         old="""                if len(value) == 1:
                    value = int.from_bytes(value, "little")
                else:
                    value = [v for v in value]""",
         new="""                if isinstance(key, slice):
                    value = [v for v in value]
                else:
                    value = int.from_bytes(value, "little")"""),
    dict(name="c09-silent-fold-by-index", property="C09", expect="silent", file=V,
         old="""                if len(value) == 1:
                    value = int.from_bytes(value, "little")""",
         new="""                if len(value) == 1:
                    value = value[0]"""),
    dict(name="c10-array-validator-refuses-nan", property="C10", rule="C10-D", file=V,
         old="            if any(math.isinf(self._ctype(v).value) for v in value):",
         new="            if not all(math.isfinite(self._ctype(v).value) for v in value):"),
    dict(name="c10-silent-array-validator-de-morgan", property="C10", expect="silent", file=V,
         old="            if any(math.isinf(self._ctype(v).value) for v in value):",
         new="            if not all(not math.isinf(self._ctype(v).value) for v in value):"),
    dict(name="c09-silent-exitstack-restore", property="C09", expect="silent",
         edits=[dict(file=V, old="from contextlib import contextmanager", new="from contextlib import ExitStack, contextmanager"),
                dict(file=V, old="""    if not ignore:
        token = _VALIDATION_ENABLED.set(False)
        try:
            yield
        finally:
            _VALIDATION_ENABLED.reset(token)
    else:
        yield  # dummy context""",
                     new="""    with ExitStack() as stack:
        if not ignore:
            token = _VALIDATION_ENABLED.set(False)
            stack.callback(_VALIDATION_ENABLED.reset, token)
        yield""")]),
    dict(name="c09-exitstack-registers-after-yield", property="C09", rule="C09-C",
         edits=[dict(file=V, old="from contextlib import contextmanager", new="from contextlib import ExitStack, contextmanager"),
                dict(file=V, old="""    if not ignore:
        token = _VALIDATION_ENABLED.set(False)
        try:
            yield
        finally:
            _VALIDATION_ENABLED.reset(token)
    else:
        yield  # dummy context""",
                     new="""    with ExitStack() as stack:
        if not ignore:
            token = _VALIDATION_ENABLED.set(False)
        yield
        if not ignore:
            stack.callback(_VALIDATION_ENABLED.reset, token)""")]),

    dict(name="c10-copy-through-instance-receiver", property="C10", rule="C10-C", file="src/pyrtma/message.py",
         old="            type(m.data).from_buffer_copy(m.data),", new="            m.data.from_buffer_copy(m.data),"),

    # ---------------- wave 6 ----------------
    dict(name="c10-header-decoded-with-validation-off", property="C10", rule="C10-V", file="src/pyrtma/message.py",
         old='        hdr_cls = get_header_cls()\n        hdr = hdr_cls.from_dict(d["header"])\n',
         new='        from .validators import disable_message_validation\n        hdr_cls = get_header_cls()\n        with disable_message_validation():\n            hdr = hdr_cls.from_dict(d["header"])\n'),

    # __init_subclass__ hook run on class keywords
    dict(name="c09-silent-bounds-from-init-subclass", property="C09", expect="silent", file=V,
         edits=[dict(file=V, old='    _max: ClassVar[int] = 2**8 - 1\n\n    @abstractmethod\n    def __init__(self, *args): ...\n', new='    _max: ClassVar[int] = 2**8 - 1\n\n    def __init_subclass__(cls, size=None, unsigned=False, **kwargs) -> None:\n        super().__init_subclass__(**kwargs)\n        if size is None:\n            return\n        bits = 8 * size\n        cls._size = size\n        cls._unsigned = unsigned\n        if unsigned:\n            cls._min = 0\n            cls._max = 2**bits - 1\n        else:\n            cls._min = -(2 ** (bits - 1))\n            cls._max = 2 ** (bits - 1) - 1\n\n    @abstractmethod\n    def __init__(self, *args): ...\n'),
                dict(file=V, old='class Int8(IntValidatorBase[_P, ctypes.c_int8], Generic[_P]):\n    """Validator for 8-bit integers"""\n\n    _size: ClassVar[int] = 1\n    _unsigned: ClassVar[bool] = False\n    _min: ClassVar[int] = -(2**7)\n    _max: ClassVar[int] = 2**7 - 1\n\n', new='class Int8(IntValidatorBase[_P, ctypes.c_int8], Generic[_P], size=1, unsigned=False):\n    """Validator for 8-bit integers"""\n\n')]),
    dict(name="c09-init-subclass-signed-max-off-by-one", property="C09", rule="C09-W", file=V,
         edits=[dict(file=V, old='    _max: ClassVar[int] = 2**8 - 1\n\n    @abstractmethod\n    def __init__(self, *args): ...\n', new='    _max: ClassVar[int] = 2**8 - 1\n\n    def __init_subclass__(cls, size=None, unsigned=False, **kwargs) -> None:\n        super().__init_subclass__(**kwargs)\n        if size is None:\n            return\n        bits = 8 * size\n        cls._size = size\n        cls._unsigned = unsigned\n        if unsigned:\n            cls._min = 0\n            cls._max = 2**bits - 1\n        else:\n            cls._min = -(2 ** (bits - 1))\n            cls._max = 2 ** (bits - 1)\n\n    @abstractmethod\n    def __init__(self, *args): ...\n'),
                dict(file=V, old='class Int8(IntValidatorBase[_P, ctypes.c_int8], Generic[_P]):\n    """Validator for 8-bit integers"""\n\n    _size: ClassVar[int] = 1\n    _unsigned: ClassVar[bool] = False\n    _min: ClassVar[int] = -(2**7)\n    _max: ClassVar[int] = 2**7 - 1\n\n', new='class Int8(IntValidatorBase[_P, ctypes.c_int8], Generic[_P], size=1, unsigned=False):\n    """Validator for 8-bit integers"""\n\n')]),

    # order-statistic refusal tests are compared with the bounds on every ordering
    dict(name="c10-byte-array-refuses-the-upper-bound", property="C10", rule="C10-D", file=V,
         old="        if (max(value) > self._max) or (min(value) < self._min):", new="        if (max(value) >= self._max) or (min(value) < self._min):"),
    dict(name="c10-silent-extremes-as-chained-comparison", property="C10", expect="silent", file=V,
         old="        if (max(value) > self._max) or (min(value) < self._min):", new="        lo, hi = min(value), max(value)\n        if not self._min <= lo <= hi <= self._max:"),

    # a context-manager class in place of the @contextmanager function
    dict(name="c09-silent-disable-validation-as-class", property="C09", expect="silent", file=V, old='@contextmanager\ndef disable_message_validation(ignore=False):\n    """Context manager function to temporarily disable message field validation\n    Use with `with` keyword:\n    `with disable_message_validation():`\n\n    Optionally pass in ignore=True to do nothing, e.g. for debugging:\n\n    ```\n    DEBUG = True\n    with disable_message_validation(ignore=DEBUG):\n        ... # disable validation unless DEBUG is True\n    ```\n    """\n    if not ignore:\n        token = _VALIDATION_ENABLED.set(False)\n        try:\n            yield\n        finally:\n            _VALIDATION_ENABLED.reset(token)\n    else:\n        yield  # dummy context', new='class disable_message_validation:\n    """Context manager to temporarily disable message field validation\n    Use with `with` keyword:\n    `with disable_message_validation():`\n\n    Optionally pass in ignore=True to do nothing, e.g. for debugging:\n\n    ```\n    DEBUG = True\n    with disable_message_validation(ignore=DEBUG):\n        ... # disable validation unless DEBUG is True\n    ```\n\n    Can also be applied as a function decorator:\n    `@disable_message_validation()`\n    """\n\n    def __init__(self, ignore=False):\n        self._ignore = ignore\n        # One entry per active `with` block entered through this instance.\n        # A dummy (ignored) block is recorded as None.\n        self._tokens = []\n\n    def __enter__(self) -> None:\n        if self._ignore:\n            self._tokens.append(None)  # dummy context\n        else:\n            self._tokens.append(_VALIDATION_ENABLED.set(False))\n\n    def __exit__(self, exc_type, exc_value, traceback) -> bool:\n        token = self._tokens.pop()\n        if token is not None:\n            _VALIDATION_ENABLED.reset(token)\n        # never swallow an exception raised inside the block\n        return False\n\n    def __call__(self, func):\n        @wraps(func)\n        def inner(*args, **kwds):\n            # fresh manager per call: recursion and threads do not share tokens\n            with type(self)(self._ignore):\n                return func(*args, **kwds)\n\n        return inner'),
    dict(name="c09-disable-validation-class-keeps-flag-off-after-exception", property="C09", rule="C09-C", file=V, old='@contextmanager\ndef disable_message_validation(ignore=False):\n    """Context manager function to temporarily disable message field validation\n    Use with `with` keyword:\n    `with disable_message_validation():`\n\n    Optionally pass in ignore=True to do nothing, e.g. for debugging:\n\n    ```\n    DEBUG = True\n    with disable_message_validation(ignore=DEBUG):\n        ... # disable validation unless DEBUG is True\n    ```\n    """\n    if not ignore:\n        token = _VALIDATION_ENABLED.set(False)\n        try:\n            yield\n        finally:\n            _VALIDATION_ENABLED.reset(token)\n    else:\n        yield  # dummy context', new='class disable_message_validation:\n    """Context manager to temporarily disable message field validation\n    Use with `with` keyword:\n    `with disable_message_validation():`\n\n    Optionally pass in ignore=True to do nothing, e.g. for debugging:\n\n    ```\n    DEBUG = True\n    with disable_message_validation(ignore=DEBUG):\n        ... # disable validation unless DEBUG is True\n    ```\n\n    Can also be applied as a function decorator:\n    `@disable_message_validation()`\n    """\n\n    def __init__(self, ignore=False):\n        self._ignore = ignore\n        # One entry per active `with` block entered through this instance.\n        # A dummy (ignored) block is recorded as None.\n        self._tokens = []\n\n    def __enter__(self) -> None:\n        if self._ignore:\n            self._tokens.append(None)  # dummy context\n        else:\n            self._tokens.append(_VALIDATION_ENABLED.set(False))\n\n    def __exit__(self, exc_type, exc_value, traceback) -> bool:\n        token = self._tokens.pop()\n        if token is not None and exc_type is None:\n            _VALIDATION_ENABLED.reset(token)\n        # never swallow an exception raised inside the block\n        return False\n\n    def __call__(self, func):\n        @wraps(func)\n        def inner(*args, **kwds):\n            # fresh manager per call: recursion and threads do not share tokens\n            with type(self)(self._ignore):\n                return func(*args, **kwds)\n\n        return inner'),
]
