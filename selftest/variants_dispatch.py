"""Variants exercising dispatch normalisation: handler methods looked up by name through a module-level table."""
M = "src/pyrtma/manager.py"

_OLD = '    def process_message(self, src_module: Module):\n        """Process incoming message\n\n        Args:\n            src_module (Module): Message source module\n        """\n        hdr = self.header\n        msg_type = hdr.msg_type\n\n        if msg_type == cd.MT_CONNECT or msg_type == cd.MT_CONNECT_V2:\n            if self.connect_module(src_module, self.message):\n                self.send_ack(src_module)\n                self.send_client_info(src_module)\n                if msg_type == cd.MT_CONNECT:\n                    self.logger.info(f"CONNECT - {src_module!s}")\n                else:\n                    self.logger.info(f"CONNECT v2 - {src_module!s}")\n        elif msg_type == cd.MT_DISCONNECT:\n            self.disconnect_module(src_module)\n            self.logger.info(f"DISCONNECT - {src_module!s}")\n        elif msg_type == cd.MT_SUBSCRIBE:\n            self.add_subscription(src_module, self.message)\n            self.send_ack(src_module)\n        elif msg_type == cd.MT_UNSUBSCRIBE:\n            self.remove_subscription(src_module, self.message)\n            self.send_ack(src_module)\n        elif msg_type == cd.MT_PAUSE_SUBSCRIPTION:\n            self.pause_subscription(src_module, self.message)\n            self.send_ack(src_module)\n        elif msg_type == cd.MT_RESUME_SUBSCRIPTION:\n            self.resume_subscription(src_module, self.message)\n            self.send_ack(src_module)\n        elif msg_type == cd.MT_CLIENT_SET_NAME:\n            self.set_module_name(src_module, self.message)\n            self.send_client_info(src_module)\n        elif msg_type == cd.MT_MODULE_READY:\n            self.register_module_ready(src_module, self.message)\n            self.send_client_info(src_module)\n        else:\n            self.logger.debug(f"FORWARD - msg_type:{hdr.msg_type} from {src_module!s}")\n            data = self.data_view[: hdr.num_data_bytes]\n            self.forward_message(src_module, hdr, data)\n\n'
_NEW = '    # Frame handlers.\n    #\n    # process_message looks the handler up by the lower-cased name of the\n    # core message definition: a CONNECT_V2 frame is handled by _on_connect_v2,\n    # a SUBSCRIBE frame by _on_subscribe and so on.  Every message type without\n    # a handler of its own is a data frame and goes to _on_data_frame.\n\n    def _on_connect(self, src_module: Module):\n        self._handshake(src_module, "CONNECT")\n\n    def _on_connect_v2(self, src_module: Module):\n        self._handshake(src_module, "CONNECT v2")\n\n    def _handshake(self, src_module: Module, label: str):\n        if self.connect_module(src_module, self.message):\n            self.send_ack(src_module)\n            self.send_client_info(src_module)\n            self.logger.info(f"{label} - {src_module!s}")\n\n    def _on_disconnect(self, src_module: Module):\n        self.disconnect_module(src_module)\n        self.logger.info(f"DISCONNECT - {src_module!s}")\n\n    def _on_subscribe(self, src_module: Module):\n        self.add_subscription(src_module, self.message)\n        self.send_ack(src_module)\n\n    def _on_unsubscribe(self, src_module: Module):\n        self.remove_subscription(src_module, self.message)\n        self.send_ack(src_module)\n\n    def _on_pause_subscription(self, src_module: Module):\n        self.pause_subscription(src_module, self.message)\n        self.send_ack(src_module)\n\n    def _on_resume_subscription(self, src_module: Module):\n        self.resume_subscription(src_module, self.message)\n        self.send_ack(src_module)\n\n    def _on_client_set_name(self, src_module: Module):\n        self.set_module_name(src_module, self.message)\n        self.send_client_info(src_module)\n\n    def _on_module_ready(self, src_module: Module):\n        self.register_module_ready(src_module, self.message)\n        self.send_client_info(src_module)\n\n    def _on_data_frame(self, src_module: Module):\n        hdr = self.header\n        self.logger.debug(f"FORWARD - msg_type:{hdr.msg_type} from {src_module!s}")\n        data = self.data_view[: hdr.num_data_bytes]\n        self.forward_message(src_module, hdr, data)\n\n    def process_message(self, src_module: Module):\n        """Process incoming message\n\n        Args:\n            src_module (Module): Message source module\n        """\n        frame_name = _FRAME_NAMES.get(self.header.msg_type, "data_frame")\n        handler = getattr(self, f"_on_{frame_name}")\n        handler(src_module)\n\n'
_TABLE = '_FRAME_NAMES = {\n    cd.MT_CONNECT: "connect",\n    cd.MT_CONNECT_V2: "connect_v2",\n    cd.MT_DISCONNECT: "disconnect",\n    cd.MT_SUBSCRIBE: "subscribe",\n    cd.MT_UNSUBSCRIBE: "unsubscribe",\n    cd.MT_PAUSE_SUBSCRIPTION: "pause_subscription",\n    cd.MT_RESUME_SUBSCRIPTION: "resume_subscription",\n    cd.MT_CLIENT_SET_NAME: "client_set_name",\n    cd.MT_MODULE_READY: "module_ready",\n}\n\n\n'
_CLS = "class MessageManager(ClientLike):"

VARIANTS = [
    dict(name="c19-silent-getattr-dispatch-by-table", property="C19", expect="silent", file=M,
         edits=[dict(file=M, old=_OLD, new=_NEW), dict(file=M, old=_CLS, new=_TABLE + _CLS)]),
    dict(name="c01-silent-getattr-dispatch-by-table", property="C01", expect="silent", file=M,
         edits=[dict(file=M, old=_OLD, new=_NEW), dict(file=M, old=_CLS, new=_TABLE + _CLS)]),
    # the table sends PAUSE_SUBSCRIPTION frames to the resume handler
    dict(name="c01-getattr-table-pause-to-resume-handler", property="C01", rule="C01-R9", file=M,
         edits=[dict(file=M, old=_OLD, new=_NEW), dict(file=M, old=_CLS, new=_TABLE.replace('cd.MT_PAUSE_SUBSCRIPTION: "pause_subscription"', 'cd.MT_PAUSE_SUBSCRIPTION: "resume_subscription"') + _CLS)]),
    # the subscribe handler no longer acknowledges
    dict(name="c19-getattr-table-subscribe-handler-without-ack", property="C19", rule="C19-D", file=M,
         edits=[dict(file=M, old=_OLD, new=_NEW.replace("        self.add_subscription(src_module, self.message)\n        self.send_ack(src_module)\n", "        self.add_subscription(src_module, self.message)\n")),
                dict(file=M, old=_CLS, new=_TABLE + _CLS)]),
]

_LOOP_OLD = "        for n in range(len(subscribers)):\n            module = subscribers[n]\n            # Skip modules removed while handling a failure earlier in this loop\n            if module.conn not in self.modules:\n                continue\n"
_LOOP_ALIAS = "        modules = self.modules\n        for n in range(len(subscribers)):\n            module = subscribers[n]\n            # Skip modules removed while handling a failure earlier in this loop\n            if module.conn not in modules:\n                continue\n"
_LOOP_COPY = _LOOP_ALIAS.replace("modules = self.modules", "modules = dict(self.modules)")

VARIANTS += [
    # bind-before-the-loop: an alias of the live table is read as the table; a copy of it is a stale snapshot
    dict(name="c03-silent-modules-table-bound-to-local", property="C03", expect="silent", file=M, old=_LOOP_OLD, new=_LOOP_ALIAS),
    dict(name="c07-silent-modules-table-bound-to-local", property="C07", expect="silent", file=M, old=_LOOP_OLD, new=_LOOP_ALIAS),
    dict(name="c03-liveness-against-copied-table", property="C03", rule="C03-U", file=M, old=_LOOP_OLD, new=_LOOP_COPY),
    dict(name="c07-liveness-against-copied-table", property="C07", rule="C07-S", file=M, old=_LOOP_OLD, new=_LOOP_COPY),
]

_CUR_OLD = "            self.next_dynamic_mod_id_offset += 1\n            if self.next_dynamic_mod_id_offset == MAX_DYN_IDS:\n                self.next_dynamic_mod_id_offset = 0\n"
_CUR_WALRUS = "            self.next_dynamic_mod_id_offset = 0 if (following := self.next_dynamic_mod_id_offset + 1) == MAX_DYN_IDS else following\n"

VARIANTS += [
    # walrus + conditional expression for the cursor step; wrapping one step late lets the cursor reach the span
    dict(name="c06-silent-cursor-step-by-walrus", property="C06", expect="silent", file=M, old=_CUR_OLD, new=_CUR_WALRUS),
    dict(name="c06-cursor-step-by-walrus-wraps-late", property="C06", rule="C06-G", file=M, old=_CUR_OLD, new=_CUR_WALRUS.replace("== MAX_DYN_IDS", "> MAX_DYN_IDS")),
]

P = "src/pyrtma/parser.py"
V = "src/pyrtma/validators.py"
_ACK_OLD = "            self.send_failed_message(src_module, header, time.perf_counter())\n\n        # Always forward to logger modules (the requester already has its copy)\n        self.send_to_loggers(header, b\"\", exclude=src_module)\n"
_ACK_ELSE = "            self.send_failed_message(src_module, header, time.perf_counter())\n        else:\n            # forward to logger modules (the requester already has its copy)\n            self.send_to_loggers(header, b\"\", exclude=src_module)\n"

VARIANTS += [
    # ---- rules added in wave 7 ----
    dict(name="c03-subscription-table-as-plain-dict", property="C03", rule="C03-K", file=M,
         old="        self.subscriptions: Dict[int, Set[Module]] = defaultdict(set)", new="        self.subscriptions: Dict[int, Set[Module]] = {}"),
    dict(name="c05-failure-notice-on-a-plain-header", property="C05", rule="C05-H", file=M,
         old="        out_header = self.header_cls()", new="        out_header = MessageHeader()"),
    dict(name="c14-failure-notice-on-a-plain-header", property="C14", rule="C14-N", file=M,
         old="        out_header = self.header_cls()", new="        out_header = MessageHeader()"),
    dict(name="c07-ack-copy-only-after-a-successful-send", property="C07", rule="C07-D", file=M, old=_ACK_OLD, new=_ACK_ELSE),
    dict(name="c11-alias-answers-with-its-size", property="C11", rule="C11-D", file=P, count=2,
         old="            return self.type_obj.alignment", new="            return self.type_obj.size"),
    dict(name="c11-signed-char-without-mirror-entry", property="C11", rule="C11-T", file=P,
         old='            "signed char": ctypes.c_int8,\n', new=""),
    dict(name="c09-struct-element-validated-by-value-shape", property="C09", rule="C09-I", file=V,
         old="            if isinstance(key, slice):\n                self.validate_many(value)", new='            if isinstance(value, abc.Iterable) or hasattr(value, "__getitem__"):\n                self.validate_many(value)'),
    dict(name="c01-subscription-key-decoded-unsigned", property="C01", rule="C01-R12", file=M, count=2,
         old="self.subscriptions[sub.msg_type].add(src_module)", new="self.subscriptions[int.from_bytes(bytes(msg.data)[:4], \"little\")].add(src_module)"),
    dict(name="c01-silent-subscription-key-decoded-signed", property="C01", expect="silent", file=M, count=2,
         old="self.subscriptions[sub.msg_type].add(src_module)", new="self.subscriptions[sub.msg_type if True else int.from_bytes(bytes(msg.data)[:4], \"little\", signed=True)].add(src_module)"),
]

_FAN_OLD = '        for module in list(self.logger_modules):\n            if module is exclude:\n                continue\n\n            # Skip loggers removed while handling a failure earlier in this loop\n            if module.conn not in self.modules:\n                continue\n\n            if module.conn not in self.wlist:\n                # Block until logger is ready\n                select.select([], [module.conn], [], None)\n            try:\n                module.send_message(header, payload)\n                module.drops = 0\n            except ConnectionError as err:\n                self.remove_module(module)\n                self.logger.error(f"Connection Error on write to {module!s} - {err!s}")\n                print("x", end="", flush=True)\n                # this could result in infinite recursion,\n                # this is prevented by send_failed_message returning if\n                # failed message type is failed_message.\n                self.send_failed_message(module, header, time.perf_counter())\n\n'
_FAN_COMP = '        loggers = [m for m in list(self.logger_modules) if m is not exclude]\n        [self._copy_to_logger(module, header, payload) for module in loggers]\n\n    def _copy_to_logger(self, module: Module, header: MessageHeader, payload: Union[bytes, MessageData]):\n        # Skip loggers removed while handling a failure earlier in the fan-out\n        if module.conn not in self.modules:\n            return\n\n        if module.conn not in self.wlist:\n            # Block until logger is ready\n            select.select([], [module.conn], [], None)\n        try:\n            module.send_message(header, payload)\n            module.drops = 0\n        except ConnectionError as err:\n            self.remove_module(module)\n            self.logger.error(f"Connection Error on write to {module!s} - {err!s}")\n            print("x", end="", flush=True)\n            self.send_failed_message(module, header, time.perf_counter())\n\n'
_FAN_ALL = '        loggers = [m for m in list(self.logger_modules) if m is not exclude]\n        all(self._copy_to_logger(module, header, payload) for module in loggers)\n\n    def _copy_to_logger(self, module: Module, header: MessageHeader, payload: Union[bytes, MessageData]):\n        # Skip loggers removed while handling a failure earlier in the fan-out\n        if module.conn not in self.modules:\n            return\n\n        if module.conn not in self.wlist:\n            # Block until logger is ready\n            select.select([], [module.conn], [], None)\n        try:\n            module.send_message(header, payload)\n            module.drops = 0\n        except ConnectionError as err:\n            self.remove_module(module)\n            self.logger.error(f"Connection Error on write to {module!s} - {err!s}")\n            print("x", end="", flush=True)\n            self.send_failed_message(module, header, time.perf_counter())\n\n'

VARIANTS += [
    # a comprehension run for its effects is the loop it abbreviates; all() over a sending generator is not
    dict(name="c14-silent-logger-fan-out-as-comprehension", property="C14", expect="silent", file=M, old=_FAN_OLD, new=_FAN_COMP),
    dict(name="c19-silent-logger-fan-out-as-comprehension", property="C19", expect="silent", file=M, old=_FAN_OLD, new=_FAN_COMP),
    dict(name="c07-silent-logger-fan-out-as-comprehension", property="C07", expect="silent", file=M, old=_FAN_OLD, new=_FAN_COMP),
    dict(name="c19-logger-fan-out-driven-by-all", property="C19", rule="C19-F", file=M, old=_FAN_OLD, new=_FAN_ALL),
]
