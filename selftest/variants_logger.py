"""Variants for C17 (data logger) and C18 (traffic statistics)."""
DC = "src/pyrtma/data_logger/data_collection.py"
DS = "src/pyrtma/data_logger/data_set.py"
DF = "src/pyrtma/data_logger/data_formatter.py"
QL = "src/pyrtma/data_logger/formatters/quicklogger.py"
M = "src/pyrtma/manager.py"

VARIANTS = [
    dict(name="c17-revert-signal-order-thread", property="C17", rule="C17-S", file=DC,
         old="                    self.write_finished.set()\n                    self.write_to_disk.clear()", new="                    self.write_to_disk.clear()\n                    self.write_finished.set()"),
    dict(name="c17-revert-signal-order-blocking", property="C17", rule="C17-S", file=DC,
         old="            self.write_finished.set()\n            self.write_to_disk.clear()", new="            self.write_to_disk.clear()\n            self.write_finished.set()"),
    dict(name="c17-token-before-clear-finished", property="C17", rule="C17-S", file=DC,
         old="        self.write_finished.clear()\n        self.write_to_disk.set()\n\n        if not self.use_thread:", new="        self.write_to_disk.set()\n        self.write_finished.clear()\n\n        if not self.use_thread:"),
    dict(name="c17-stage-after-token", property="C17", rule="C17-S", file=DC,
         old="        for ds in self.datasets:\n            ds.stage_for_write()\n\n        self.write_finished.clear()\n        self.write_to_disk.set()", new="        self.write_finished.clear()\n        self.write_to_disk.set()\n        for ds in self.datasets:\n            ds.stage_for_write()"),
    dict(name="c17-signal-before-write", property="C17", rule="C17-S", file=DC,
         old="                    for ds in self.datasets:\n                        ds.write()\n                    self.write_finished.set()\n                    self.write_to_disk.clear()", new="                    self.write_finished.set()\n                    for ds in self.datasets:\n                        ds.write()\n                    self.write_to_disk.clear()"),
    dict(name="c17-flush-while-pending", property="C17", rule="C17-G", file=DC,
         old="            if self.write_to_disk.is_set():\n                self.logger.warning(\"Unable to write fast enough.\")\n            else:\n                self.next_write = elapsed + DataCollection.WRITE_PERIOD\n                self.trigger_write()",
         new="            if self.write_to_disk.is_set():\n                self.logger.warning(\"Unable to write fast enough.\")\n            self.next_write = elapsed + DataCollection.WRITE_PERIOD\n            self.trigger_write()"),
    dict(name="c17-stop-without-wait", property="C17", rule="C17-G", file=DC,
         old="        if self.write_to_disk.is_set():\n            while not self.write_finished.wait(0.250):\n                pass\n", new="        if self.write_to_disk.is_set():\n            self.write_finished.wait(0.250)\n"),
    dict(name="c17-rbuf-reused", property="C17", rule="C17-O", file=DS,
         old="        self.wbuf = self.rbuf\n        self.rbuf = []", new="        self.wbuf, self.rbuf = self.rbuf, self.wbuf"),
    dict(name="c17-writer-clears-rbuf", property="C17", rule="C17-O", file=DS,
         old="        self.formatter.write(self.wbuf)\n        self.wbuf.clear()", new="        self.formatter.write(self.wbuf)\n        self.wbuf.clear()\n        self.rbuf.clear()"),
    dict(name="c17-pause-drops-buffer", property="C17", rule="C17-O", file=DC,
         old="        self._elapsed_time = elapsed\n        self._paused = True", new="        self._elapsed_time = elapsed\n        self._paused = True\n        for ds in self.datasets:\n            ds.rbuf = []"),
    dict(name="c17-selection-only-all-sub", property="C17", rule="C17-E", file=DC,
         old="                if ds.all_sub or msg.type_id in ds.msg_types:", new="                if ds.all_sub and msg.type_id in ds.msg_types:"),
    dict(name="c17-flush-inside-loop", property="C17", rule="C17-E", file=DC,
         old="            if elapsed > ds.next_subdivide:\n                ds.next_subdivide = elapsed + ds.subdivide_interval\n                ds.subdivide_flag = True\n                write = True",
         new="            if elapsed > ds.next_subdivide:\n                ds.next_subdivide = elapsed + ds.subdivide_interval\n                ds.subdivide_flag = True\n                write = True\n                if not self.write_to_disk.is_set():\n                    self.trigger_write()"),
    dict(name="c17-close-before-stop", property="C17", rule="C17-F", file=DC,
         old="            ds.collection_stopped = True\n            ds.stop()\n            ds.close()", new="            ds.collection_stopped = True\n            ds.close()\n            ds.stop()"),
    dict(name="c17-stop-without-staging", property="C17", rule="C17-F", file=DS,
         old="    def stop(self):\n        self.stage_for_write()\n        self.formatter.finalize(self.wbuf)", new="    def stop(self):\n        self.formatter.finalize(self.wbuf)"),
    dict(name="c17-footer-before-buffer", property="C17", rule="C17-F", file=DF,
         old="        # Write the last bit of data\n        self.write(wbuf)\n\n        # Write an optional footer\n        if footer := self.format_footer():\n            self.fd.write(footer)", new="        # Write an optional footer\n        if footer := self.format_footer():\n            self.fd.write(footer)\n        self.write(wbuf)"),
    dict(name="c17-ql-data-before-offsets", property="C17", rule="C17-F", file=QL,
         old="            self.write(wbuf)\n            self.write_offsets()\n            self.copy_data()", new="            self.write(wbuf)\n            self.copy_data()\n            self.write_offsets()"),
    dict(name="c17-formatter-skips-empty", property="C17", rule="C17-F", file=DF,
         old="        self.fd.writelines(self.format_message(msg) for msg in wbuf)", new="        self.fd.writelines(self.format_message(msg) for msg in wbuf if msg.data.type_size)"),
    dict(name="c17-silent-rename-loop-var", property="C17", expect="silent", file=DC,
         old="                    for ds in self.datasets:\n                        ds.write()\n                    self.write_finished.set()", new="                    for data_set in self.datasets:\n                        data_set.write()\n                    self.write_finished.set()"),
]
