"""Seeded and behaviour-preserving variants for the manager rules (C01, C05, C14, C19, C07, C18)."""
M = "src/pyrtma/manager.py"
C = "src/pyrtma/client.py"

VARIANTS = [
    # ---------------- C01 ----------------
    dict(name="c01-drop-logger-disjunct", property="C01", rule="C01-R2", file=M,
         old="""                    if (
                        dest_mod_id == 0
                        or (module.mod_id == dest_mod_id)
                        or module.is_logger
                    ):
                        module.send_message(header, data)""",
         new="""                    if True:
                        module.send_message(header, data)"""),
    dict(name="c01-filter-wrong-field", property="C01", rule="C01-R2", file=M,
         old="or (module.mod_id == dest_mod_id)", new="or (module.mod_id == dest_host_id)"),
    dict(name="c01-recipients-from-modules", property="C01", rule="C01-R1", file=M,
         old="""                self.subscriptions[ALL_MESSAGE_TYPES],
            )""",
         new="""                self.subscriptions[ALL_MESSAGE_TYPES],
                self.logger_modules,
            )"""),
    dict(name="c01-recipients-miss-all", property="C01", rule="C01-R1", file=M,
         old="""                self.subscriptions[header.msg_type],
                self.subscriptions[ALL_MESSAGE_TYPES],""",
         new="""                self.subscriptions[header.msg_type],"""),
    dict(name="c01-recipients-wrong-key", property="C01", rule="C01-R1", file=M,
         old="self.subscriptions[header.msg_type],\n                self.subscriptions[ALL", new="self.subscriptions[header.src_mod_id],\n                self.subscriptions[ALL"),
    dict(name="c01-range-return-to-pass", property="C01", rule="C01-R3", file=M,
         old="""                f"MessageManager::forward_message: Got invalid dest_host_id [{dest_host_id}] from {src_name}"
            )
            return""",
         new="""                f"MessageManager::forward_message: Got invalid dest_host_id [{dest_host_id}] from {src_name}"
            )"""),
    dict(name="c01-range-bound-off", property="C01", rule="C01-R3", file=M,
         old="if dest_mod_id < 0 or dest_mod_id > cd.MAX_MODULES:\n            self.logger.error(\n                f\"MessageManager::forward_message", new="if dest_mod_id < 0 or dest_mod_id > cd.MAX_MODULES + 100:\n            self.logger.error(\n                f\"MessageManager::forward_message"),
    dict(name="c01-store-dest-before-forward", property="C01", rule="C01-R4", file=M,
         old="        dest_mod_id = header.dest_mod_id\n        dest_host_id = header.dest_host_id", new="        dest_mod_id = header.dest_mod_id\n        dest_host_id = header.dest_host_id\n        header.src_mod_id = src_module.mod_id"),
    dict(name="c01-forward-copy-header", property="C01", rule="C01-R4", file=M,
         old="            self.forward_message(src_module, hdr, data)", new="            self.forward_message(src_module, self.header_cls(), data)"),
    dict(name="c01-swallow-type", property="C01", rule="C01-R5", file=M,
         old="        else:\n            self.logger.debug(f\"FORWARD", new="        elif msg_type == cd.MT_TIMING_MESSAGE:\n            pass\n        else:\n            self.logger.debug(f\"FORWARD"),
    dict(name="c01-forward-conditional", property="C01", rule="C01-R5", file=M,
         old="            self.forward_message(src_module, hdr, data)", new="            if hdr.num_data_bytes:\n                self.forward_message(src_module, hdr, data)"),
    dict(name="c01-double-send", property="C01", rule="C01-R6", file=M,
         old="                        module.send_message(header, data)\n                        module.drops = 0\n                except", new="                        module.send_message(header, data)\n                        module.drops = 0\n                        if module.is_logger:\n                            module.send_message(header, data)\n                except"),
    dict(name="c01-silent-extract-locals", property="C01", expect="silent", file=M,
         old="        for n in range(len(subscribers)):\n            module = subscribers[n]", new="        for module in subscribers:"),
    dict(name="c01-silent-early-continue", property="C01", expect="silent", file=M,
         old="""                    if (
                        dest_mod_id == 0
                        or (module.mod_id == dest_mod_id)
                        or module.is_logger
                    ):
                        module.send_message(header, data)
                        module.drops = 0""",
         new="""                    if not (dest_mod_id == 0 or module.is_logger or dest_mod_id == module.mod_id):
                        continue
                    module.send_message(header, data)
                    module.drops = 0"""),
    # ---------------- C05 ----------------
    dict(name="c05-send-for-sendall", property="C05", rule="C05-W", file=M,
         old="        self.conn.sendall(header)\n        self.conn.sendall(payload)", new="        self.conn.sendall(header)\n        self.conn.send(payload)"),
    dict(name="c05-payload-before-header", property="C05", rule="C05-W", file=M,
         old="        self.conn.sendall(header)\n        self.conn.sendall(payload)", new="        self.conn.sendall(payload)\n        self.conn.sendall(header)"),
    dict(name="c05-skip-empty-payload-and-header", property="C05", rule="C05-W", file=M,
         old="        self.conn.sendall(header)\n        self.conn.sendall(payload)", new="        if header.num_data_bytes:\n            self.conn.sendall(header)\n        self.conn.sendall(payload)"),
    dict(name="c05-increment-after-send", property="C05", rule="C05-S", file=M,
         old="        self.msg_count += 1\n        header.msg_count = self.msg_count\n\n        self.conn.sendall(header)\n        self.conn.sendall(payload)",
         new="        header.msg_count = self.msg_count\n\n        self.conn.sendall(header)\n        self.conn.sendall(payload)\n        self.msg_count += 1"),
    dict(name="c05-increment-conditional", property="C05", rule="C05-S", file=M,
         old="        self.msg_count += 1\n        header.msg_count = self.msg_count\n\n        self.conn.sendall(header)\n        self.conn.sendall(payload)",
         new="        if header.msg_type != cd.MT_ACKNOWLEDGE:\n            self.msg_count += 1\n        header.msg_count = self.msg_count\n\n        self.conn.sendall(header)\n        self.conn.sendall(payload)"),
    dict(name="c05-second-writer", property="C05", rule="C05-O", file=M,
         old="        mr = cd.MDF_MODULE_READY.from_buffer(msg.data)\n        src_module.pid = mr.pid", new="        mr = cd.MDF_MODULE_READY.from_buffer(msg.data)\n        src_module.pid = mr.pid\n        src_module.conn.sendall(self.header)"),
    dict(name="c05-counter-reset-elsewhere", property="C05", rule="C05-S", file=M,
         old="        module.connected = True\n\n        if module.is_logger:", new="        module.connected = True\n        module.msg_count = 0\n\n        if module.is_logger:"),
    dict(name="c05-length-from-other-object", property="C05", rule="C05-L", file=M,
         old="        out_header.num_data_bytes = ctypes.sizeof(data)", new="        out_header.num_data_bytes = ctypes.sizeof(header)"),
    dict(name="c05-slice-other-bound", property="C05", rule="C05-L", file=M,
         old="            data = self.data_view[: hdr.num_data_bytes]", new="            data = self.data_view[: hdr.remaining_bytes]"),
    dict(name="c05-thread", property="C05", rule="C05-T", file=M,
         old="import typing\n", new="import typing\nimport threading\n"),
    dict(name="c05-silent-reorder-independent", property="C05", expect="silent", file=M,
         old="        header.msg_type = cd.MT_ACKNOWLEDGE\n        header.send_time = time.perf_counter()\n        header.src_mod_id = cd.MID_MESSAGE_MANAGER\n        header.dest_mod_id = src_module.mod_id\n        header.num_data_bytes = 0",
         new="        header.num_data_bytes = 0\n        header.dest_mod_id = src_module.mod_id\n        header.msg_type = cd.MT_ACKNOWLEDGE\n        header.src_mod_id = cd.MID_MESSAGE_MANAGER\n        header.send_time = time.perf_counter()"),
    dict(name="c05-silent-local-conn", property="C05", expect="silent", file=M,
         old="        self.conn.sendall(header)\n        self.conn.sendall(payload)", new="        conn = self.conn\n        conn.sendall(header)\n        conn.sendall(payload)"),
    # ---------------- C14 ----------------
    dict(name="c14-continue-in-drop-branch", property="C14", rule="C14-B", file=M,
         old="            else:\n                module.drops += 1\n                print(\"x\", end=\"\", flush=True)\n                self.send_failed_message(module, header, time.perf_counter())",
         new="            else:\n                module.drops += 1\n                print(\"x\", end=\"\", flush=True)\n                if module.drops > 3:\n                    continue\n                self.send_failed_message(module, header, time.perf_counter())"),
    dict(name="c14-handler-no-report", property="C14", rule="C14-H", file=M,
         old="                    print(\"x\", end=\"\", flush=True)\n                    self.send_failed_message(module, header, time.perf_counter())\n            elif module.is_logger:",
         new="                    print(\"x\", end=\"\", flush=True)\n            elif module.is_logger:"),
    dict(name="c14-handler-wrong-module", property="C14", rule="C14-H", file=M,
         old="            self.remove_module(src_module)\n            self.logger.error(f\"Connection Error on write to {src_module!s} - {err!s}\")\n            print(\"x\", end=\"\", flush=True)\n            self.send_failed_message(src_module, header, time.perf_counter())",
         new="            self.remove_module(src_module)\n            self.logger.error(f\"Connection Error on write to {src_module!s} - {err!s}\")\n            print(\"x\", end=\"\", flush=True)\n            self.send_failed_message(self.mm_module, header, time.perf_counter())"),
    dict(name="c14-logger-nonblocking-select", property="C14", rule="C14-L", file=M,
         old="                # Block until logger is ready\n                select.select([], [module.conn], [], None)\n\n                try:", new="                # Block until logger is ready\n                select.select([], [module.conn], [], 0)\n\n                try:"),
    dict(name="c14-logger-dropped", property="C14", rule="C14-L", file=M,
         old="            elif module.is_logger:\n                # Block until logger is ready", new="            elif module.is_logger and module.drops < 5:\n                # Block until logger is ready"),
    dict(name="c14-guard-misses-log-level", property="C14", rule="C14-G", file=M,
         old="            cd.MT_RTMA_LOG_WARNING,\n", new=""),
    dict(name="c14-guard-misses-failed", property="C14", rule="C14-G", file=M,
         old="        if header.msg_type in (\n            cd.MT_FAILED_MESSAGE,", new="        if header.msg_type in ("),
    dict(name="c14-notice-wrong-id", property="C14", rule="C14-N", file=M,
         old="        data.dest_mod_id = dest_module.mod_id", new="        data.dest_mod_id = header.dest_mod_id"),
    dict(name="c14-notice-partial-header", property="C14", rule="C14-N", file=M,
         old="        for fname, ftype, *_ in data.msg_header._fields_:\n            setattr(data.msg_header, fname, getattr(header, fname))", new="        for fname, ftype, *_ in data.msg_header._fields_:\n            if fname == \"src_mod_id\":\n                continue\n            setattr(data.msg_header, fname, getattr(header, fname))"),
    dict(name="c14-silent-guard-as-set", property="C14", expect="silent", file=M,
         old="        if header.msg_type in (\n            cd.MT_FAILED_MESSAGE,", new="        if header.msg_type == cd.MT_FAILED_MESSAGE or header.msg_type in (\n            cd.MT_FAILED_MESSAGE,"),
    # ---------------- C19 ----------------
    dict(name="c19-delete-ack", property="C19", rule="C19-D", file=M,
         old="            self.pause_subscription(src_module, self.message)\n            self.send_ack(src_module)", new="            self.pause_subscription(src_module, self.message)"),
    dict(name="c19-ack-in-handler", property="C19", rule="C19-O", file=M,
         old="            self.subscriptions[sub.msg_type].add(src_module)\n            src_module.subs.add(sub.msg_type)\n            self.logger.debug(f\"SUBSCRIBE- {src_module!s} to MT:{sub.msg_type}\")",
         new="            self.subscriptions[sub.msg_type].add(src_module)\n            src_module.subs.add(sub.msg_type)\n            self.send_ack(src_module)\n            self.logger.debug(f\"SUBSCRIBE- {src_module!s} to MT:{sub.msg_type}\")"),
    dict(name="c19-ack-module-ready", property="C19", rule="C19-D", file=M,
         old="            self.register_module_ready(src_module, self.message)\n            self.send_client_info(src_module)", new="            self.register_module_ready(src_module, self.message)\n            self.send_ack(src_module)\n            self.send_client_info(src_module)"),
    dict(name="c19-ack-refused-connect", property="C19", rule="C19-D", file=M,
         old="            if self.connect_module(src_module, self.message):\n                self.send_ack(src_module)", new="            accepted = self.connect_module(src_module, self.message)\n            self.send_ack(src_module)\n            if accepted:"),
    dict(name="c19-ack-wrong-dest", property="C19", rule="C19-A", file=M,
         old="        header.dest_mod_id = src_module.mod_id\n        header.num_data_bytes = 0\n\n        try:", new="        header.dest_mod_id = 0\n        header.num_data_bytes = 0\n\n        try:"),
    dict(name="c19-no-logger-copy-on-failure", property="C19", rule="C19-A", file=M,
         old="            self.send_failed_message(src_module, header, time.perf_counter())\n\n        # Always forward to logger modules", new="            self.send_failed_message(src_module, header, time.perf_counter())\n            return\n\n        # Always forward to logger modules"),
    dict(name="c19-second-connect-acked", property="C19", rule="C19-D", file=M,
         old="        if module.connected:\n            return False\n\n        if isinstance(msg.data, cd.MDF_CONNECT_V2):", new="        if module.connected:\n            return True\n\n        if isinstance(msg.data, cd.MDF_CONNECT_V2):"),
    dict(name="c19-client-order", property="C19", rule="C19-C", file=C,
         old="        self.send_message(msg2)\n        self.send_message(msg)\n        ack_msg", new="        self.send_message(msg)\n        self.send_message(msg2)\n        ack_msg"),
    dict(name="c19-wait-returns-any", property="C19", rule="C19-C", file=C,
         old="                if msg is not None:\n                    if msg.header.msg_type == cd.MT_ACKNOWLEDGE:\n                        return msg", new="                if msg is not None:\n                    return msg"),
    dict(name="c19-silent-early-return-dispatch", property="C19", expect="silent", file=M,
         old="        elif msg_type == cd.MT_SUBSCRIBE:\n            self.add_subscription(src_module, self.message)\n            self.send_ack(src_module)\n        elif msg_type == cd.MT_UNSUBSCRIBE:",
         new="        elif msg_type == cd.MT_SUBSCRIBE:\n            self.add_subscription(src_module, self.message)\n            self.send_ack(src_module)\n            return\n        if msg_type == cd.MT_UNSUBSCRIBE:"),
    # ---------------- C07 ----------------
    dict(name="c07-no-logger-discard", property="C07", rule="C07-R", file=M,
         old="        self.logger_modules.discard(module)\n", new="        pass\n"),
    dict(name="c07-conditional-table-delete", property="C07", rule="C07-R", file=M,
         old="        self.send_client_close(module)\n        del self.modules[module.conn]", new="        self.send_client_close(module)\n        if module.connected:\n            del self.modules[module.conn]"),
    dict(name="c07-subs-loop-filtered", property="C07", rule="C07-R", file=M,
         old="        for msg_type in module.subs:\n            self.subscriptions[msg_type].discard(module)\n\n        # Discard from logger", new="        for msg_type in module.subs:\n            if msg_type != ALL_MESSAGE_TYPES:\n                self.subscriptions[msg_type].discard(module)\n\n        # Discard from logger"),
    dict(name="c07-short-read-no-remove", property="C07", rule="C07-F", file=M,
         old="            if nbytes != data_size:\n                mod = self.modules[sock]\n                self.remove_module(mod)", new="            if nbytes != data_size:\n                mod = self.modules[sock]"),
    dict(name="c07-refusal-no-remove", property="C07", rule="C07-F", file=M,
         old="                            f\"SET_NAME - {module.ipaddr} - ID({module.mod_id}) - {module.name} - Name already in use.\"\n                        )\n                        self.remove_module(module)", new="                            f\"SET_NAME - {module.ipaddr} - ID({module.mod_id}) - {module.name} - Name already in use.\"\n                        )"),
    dict(name="c07-refusal-kicks-incumbent", property="C07", rule="C07-F", file=M,
         old="                    if m.unique:\n                        self.logger.error(\n                            f\"SET_ID - {module.ipaddr} - ID({module.mod_id}) - ID already in use. Closing connection.\"\n                        )\n                        self.remove_module(module)",
         new="                    if m.unique:\n                        self.logger.error(\n                            f\"SET_ID - {module.ipaddr} - ID({module.mod_id}) - ID already in use. Closing connection.\"\n                        )\n                        self.remove_module(m)"),
    dict(name="c07-close-elsewhere", property="C07", rule="C07-F", file=M,
         old="        self.remove_module(src_module)\n\n    def add_subscription", new="        src_module.conn.close()\n        self.remove_module(src_module)\n\n    def add_subscription"),
    dict(name="c07-disconnect-no-remove", property="C07", rule="C07-F", file=M,
         old="            self.disconnect_module(src_module)\n            self.logger.info(f\"DISCONNECT", new="            src_module.connected = False\n            self.logger.info(f\"DISCONNECT"),
    dict(name="c07-client-closed-twice", property="C07", rule="C07-C", file=M,
         old="        self.remove_module(src_module)\n\n    def add_subscription", new="        self.remove_module(src_module)\n        self.send_client_close(src_module)\n\n    def add_subscription"),
    dict(name="c07-client-closed-conditional", property="C07", rule="C07-C", file=M,
         old="        self.send_client_close(module)\n        del self.modules", new="        if module.connected:\n            self.send_client_close(module)\n        del self.modules"),
    dict(name="c07-notice-before-unsubscribe", property="C07", rule="C07-C", file=M,
         old="        # Drop all subscriptions for this module\n        for msg_type in module.subs:", new="        self.send_client_close(module)\n        # Drop all subscriptions for this module\n        for msg_type in module.subs:"),
    dict(name="c07-handler-returns", property="C07", rule="C07-D", file=M,
         old="                    print(\"x\", end=\"\", flush=True)\n                    self.send_failed_message(module, header, time.perf_counter())\n            elif module.is_logger:", new="                    print(\"x\", end=\"\", flush=True)\n                    self.send_failed_message(module, header, time.perf_counter())\n                    return\n            elif module.is_logger:"),
    dict(name="c07-silent-pop-table", property="C07", expect="silent", file=M,
         old="        del self.modules[module.conn]", new="        self.modules.pop(module.conn)"),
    # ---------------- C03 ----------------
    dict(name="c03-revert-size-bound", property="C03", rule="C03-T", file=M,
         old="        if data_size < 0 or data_size > len(self.data_buffer):", new="        if False:"),
    dict(name="c03-size-bound-upper-only", property="C03", rule="C03-T", file=M,
         old="        if data_size < 0 or data_size > len(self.data_buffer):", new="        if data_size > len(self.data_buffer):"),
    dict(name="c03-revert-timing-bound", property="C03", rule="C03-T", file=M,
         old="            if 0 <= mt < cd.MAX_MESSAGE_TYPES:\n                data.timing[mt] = count", new="            data.timing[mt] = count"),
    dict(name="c03-timing-bound-inclusive", property="C03", rule="C03-T", file=M,
         old="            if 0 <= mt < cd.MAX_MESSAGE_TYPES:", new="            if 0 <= mt <= cd.MAX_MESSAGE_TYPES:"),
    dict(name="c03-revert-name-handler", property="C03", rule="C03-T", file=M,
         old="            try:\n                module.name = msg.data.name\n            except UnicodeDecodeError:\n                self.logger.error(\n                    f\"SET_NAME - {module.ipaddr} - Module name is not valid ascii. Closing connection.\"\n                )\n                self.remove_module(module)\n                return False", new="            module.name = msg.data.name"),
    dict(name="c03-revert-client-index-bound", property="C03", rule="C03-T", file=M,
         old="            if i < cd.MAX_ACTIVE_CLIENTS:\n                msg.client_mod_id[i] = module.mod_id\n                msg.client_pid[i] = module.pid", new="            msg.client_mod_id[i] = module.mod_id\n            msg.client_pid[i] = module.pid"),
    dict(name="c03-mod-id-range-widened", property="C03", rule="C03-T", file=M,
         old="            if module.mod_id < 1 or module.mod_id > cd.DYN_MOD_ID_START:", new="            if module.mod_id < 1 or module.mod_id > cd.MAX_MESSAGE_TYPES:"),
    dict(name="c03-header-field-as-index", property="C03", rule="C03-T", file=M,
         old="        for mod in self.modules.values():\n            data.ModulePID[mod.mod_id] = mod.pid", new="        for mod in self.modules.values():\n            data.ModulePID[mod.mod_id] = mod.pid\n        data.ModulePID[self.header.src_mod_id] = 0"),
    dict(name="c03-revert-loggers-snapshot", property="C03", rule="C03-M", file=M,
         old="        for module in list(self.logger_modules):", new="        for module in self.logger_modules:"),
    dict(name="c03-revert-active-clients-snapshot", property="C03", rule="C03-M", file=M,
         old="        for i, (sock, module) in enumerate(list(self.modules.items())):", new="        for i, (sock, module) in enumerate(self.modules.items()):"),
    dict(name="c03-revert-connect-loop-snapshot", property="C03", rule="C03-M", file=M,
         old="            for m in list(self.modules.values()):\n                if m is module:", new="            for m in self.modules.values():\n                if m is module:"),
    dict(name="c03-new-loop-with-log", property="C03", rule="C03-M", file=M,
         old="        data.send_time = time.perf_counter()\n        with self.sending_traffic_ctx():\n            self.send_message(data)", new="        for mod in self.modules.values():\n            self.logger.debug(f\"pid {mod.pid}\")\n        data.send_time = time.perf_counter()\n        with self.sending_traffic_ctx():\n            self.send_message(data)"),
    dict(name="c03-revert-idempotent-remove", property="C03", rule="C03-U", file=M,
         old="        # Nothing to do if the module was already removed\n        if self.modules.get(module.conn) is not module:\n            return\n\n", new=""),
    dict(name="c03-revert-forward-liveness", property="C03", rule="C03-U", file=M,
         old="            # Skip modules removed while handling a failure earlier in this loop\n            if module.conn not in self.modules:\n                continue\n\n            if module.conn in self.wlist:", new="            if module.conn in self.wlist:"),
    dict(name="c03-send-outside-handler", property="C03", rule="C03-H", file=M,
         old="        try:\n            src_module.send_message(header, b\"\")\n        except ConnectionError as err:", new="        src_module.send_message(header, b\"\")\n        try:\n            pass\n        except ConnectionError as err:"),
    dict(name="c03-read-handler-dropped", property="C03", rule="C03-H", file=M,
         old="                                try:\n                                    got_msg = self.read_message(client_socket)\n                                except ConnectionError as err:\n                                    self.disconnect_module(src)\n                                    self.logger.error(\n                                        f\"Connection Error on read, disconnecting  {src!s} - {err!s}\"\n                                    )\n                                    continue",
         new="                                got_msg = self.read_message(client_socket)"),
    dict(name="c03-silent-bound-via-constant", property="C03", expect="silent", file=M,
         old="        if data_size < 0 or data_size > len(self.data_buffer):", new="        if not (0 <= data_size <= len(self.data_buffer)):"),
    dict(name="c19-revert-exclude-requester", property="C19", rule="C19-X", file=M,
         old="        self.send_to_loggers(header, b\"\", exclude=src_module)", new="        self.send_to_loggers(header, b\"\")"),
    dict(name="c19-exclude-ignored", property="C19", rule="C19-X", file=M,
         old="            if module is exclude:\n                continue\n\n", new=""),
    # ---------------- rules added after the independent changes ----------------
    dict(name="c01-poll-only-subscribed", property="C01", rule="C01-R7", file=M,
         old="                                [], self.modules.keys(), [], self.write_timeout", new="                                [], [m.conn for m in self.modules.values() if m.subs], [], self.write_timeout"),
    dict(name="c01-poll-extra-condition", property="C01", rule="C01-R7", file=M,
         old="                        self.wlist.clear()\n                        if rlist:", new="                        self.wlist.clear()\n                        if rlist and self.subscriptions:"),
    dict(name="c01-silent-poll-skips-listener", property="C01", expect="silent", file=M,
         old="                                [], self.modules.keys(), [], self.write_timeout", new="                                [], [s for s in self.modules.keys() if s is not self.listen_socket], [], self.write_timeout"),
    dict(name="c03-service-loop-no-recheck", property="C03", rule="C03-U", file=M,
         old="                            src = self.modules.get(client_socket)\n                            if src:", new="                            src = self.modules.get(client_socket)\n                            if True:"),
    dict(name="c05-handler-keeps-connection", property="C05", rule="C05-P", file=M,
         old="        except ConnectionError as err:\n            self.remove_module(src_module)\n            self.logger.error(f\"Connection Error on write to {src_module!s} - {err!s}\")", new="        except ConnectionError as err:\n            src_module.drops += 1\n            self.logger.error(f\"Connection Error on write to {src_module!s} - {err!s}\")"),
    dict(name="c05-shared-header-object", property="C05", rule="C05-L", file=M,
         old="        header = self.header_cls()\n        header.msg_type = msg_data.type_id", new="        header = self.mm_header\n        header.msg_type = msg_data.type_id"),
    dict(name="c07-shared-header-object", property="C07", rule="C07-D", file=M,
         old="        header = self.header_cls()\n        header.msg_type = msg_data.type_id", new="        header = self.mm_header\n        header.msg_type = msg_data.type_id"),
    dict(name="c07-shared-closed-notice", property="C07", rule="C07-D", file=M,
         old="        msg = cd.MDF_CLIENT_CLOSED()\n        msg.uid = module.uid", new="        msg = self.closed_msg\n        msg.uid = module.uid"),
    dict(name="c01-silent-eligible-local", property="C01", expect="silent", file=M,
         old="                    if (\n                        dest_mod_id == 0\n                        or (module.mod_id == dest_mod_id)\n                        or module.is_logger\n                    ):\n                        module.send_message(header, data)",
         new="                    eligible = dest_mod_id == 0 or module.mod_id == dest_mod_id or module.is_logger\n                    if eligible:\n                        module.send_message(header, data)"),
    dict(name="c14-silent-eligible-local", property="C14", expect="silent", file=M,
         old="                    if (\n                        dest_mod_id == 0\n                        or (module.mod_id == dest_mod_id)\n                        or module.is_logger\n                    ):\n                        module.send_message(header, data)",
         new="                    eligible = dest_mod_id == 0 or module.mod_id == dest_mod_id or module.is_logger\n                    if eligible:\n                        module.send_message(header, data)"),
    dict(name="c01-hard-coded-header", property="C01", rule="C01-R8", file=M,
         old="        out_header = self.header_cls()\n        data = cd.MDF_FAILED_MESSAGE()", new="        out_header = MessageHeader()\n        data = cd.MDF_FAILED_MESSAGE()"),
    dict(name="c01-header-size-fixed", property="C01", rule="C01-R8", file=M,
         old="        self.header_size = ctypes.sizeof(self.header_cls)", new="        self.header_size = ctypes.sizeof(MessageHeader)"),
    dict(name="c14-notice-skipped-without-failed-subscribers", property="C14", rule="C14-G", file=M,
         old="        out_header = self.header_cls()\n        data = cd.MDF_FAILED_MESSAGE()",
         new="        if not self.subscriptions[cd.MT_FAILED_MESSAGE]:\n            return\n        out_header = self.header_cls()\n        data = cd.MDF_FAILED_MESSAGE()"),
    dict(name="c14-silent-notice-skipped-when-nobody-can-receive", property="C14", expect="silent", file=M,
         old="        out_header = self.header_cls()\n        data = cd.MDF_FAILED_MESSAGE()",
         new="        if not self.subscriptions[cd.MT_FAILED_MESSAGE] and not self.subscriptions[ALL_MESSAGE_TYPES]:\n            return\n        out_header = self.header_cls()\n        data = cd.MDF_FAILED_MESSAGE()"),
    dict(name="c19-silent-exclude-in-comprehension", property="C19", expect="silent", file=M,
         old="        for module in list(self.logger_modules):\n            if module is exclude:\n                continue\n",
         new="        for module in [m for m in self.logger_modules if m is not exclude]:\n"),
    dict(name="c01-silent-filter-in-comprehension", property="C01", expect="silent", file=M,
         old="        for n in range(len(subscribers)):\n            module = subscribers[n]",
         new="        subscribers = [m for m in subscribers if dest_mod_id == 0 or m.mod_id == dest_mod_id or m.is_logger]\n        for n in range(len(subscribers)):\n            module = subscribers[n]"),
    dict(name="c14-silent-filter-in-comprehension", property="C14", expect="silent", file=M,
         old="        for n in range(len(subscribers)):\n            module = subscribers[n]",
         new="        subscribers = [m for m in subscribers if dest_mod_id == 0 or m.mod_id == dest_mod_id or m.is_logger]\n        for n in range(len(subscribers)):\n            module = subscribers[n]"),
    dict(name="c01-addressed-only-to-loggers", property="C01", rule="C01-R1", file=M,
         old="        for n in range(len(subscribers)):\n            module = subscribers[n]",
         new="        if dest_mod_id != 0 and dest_mod_id not in [m.mod_id for m in self.modules.values() if m.connected]:\n            subscribers = [m for m in subscribers if m.is_logger]\n        for n in range(len(subscribers)):\n            module = subscribers[n]"),
    dict(name="c01-first-subscriber-only", property="C01", rule="C01-R1", file=M,
         old="        for n in range(len(subscribers)):\n            module = subscribers[n]",
         new="        if dest_mod_id != 0:\n            subscribers = subscribers[:1]\n        for n in range(len(subscribers)):\n            module = subscribers[n]"),
    dict(name="c07-id-index-erased-by-value", property="C07", rule="C07-K",
         edits=[dict(file=M, old="        module.connected = True\n\n        if module.is_logger:", new="        module.connected = True\n        self.sockets_by_id = getattr(self, 'sockets_by_id', {})\n        self.sockets_by_id[module.mod_id] = module.conn\n\n        if module.is_logger:"),
                dict(file=M, old="        self.send_client_close(module)\n        del self.modules[module.conn]", new="        self.send_client_close(module)\n        getattr(self, 'sockets_by_id', {}).pop(module.mod_id, None)\n        del self.modules[module.conn]")]),
    dict(name="c07-id-index-never-erased", property="C07", rule="C07-K", file=M,
         old="        module.connected = True\n\n        if module.is_logger:", new="        module.connected = True\n        self.sockets_by_id = getattr(self, 'sockets_by_id', {})\n        self.sockets_by_id[module.mod_id] = module.conn\n\n        if module.is_logger:"),
    dict(name="c07-loggers-liveness-hoisted", property="C07", rule="C07-S", file=M,
         old="        for module in list(self.logger_modules):\n            if module is exclude:\n                continue\n\n            # Skip loggers removed while handling a failure earlier in this loop\n            if module.conn not in self.modules:\n                continue\n",
         new="        for module in [m for m in self.logger_modules if m is not exclude and m.conn in self.modules]:\n"),
    dict(name="c07-silent-id-index-erased-on-evidence", property="C07", expect="silent",
         edits=[dict(file=M, old="        module.connected = True\n\n        if module.is_logger:", new="        module.connected = True\n        self.ids_in_use = getattr(self, 'ids_in_use', {})\n        self.ids_in_use[module.mod_id] = self.ids_in_use.get(module.mod_id, 0) + 1\n\n        if module.is_logger:"),
                dict(file=M, old="        self.send_client_close(module)\n        del self.modules[module.conn]", new="        self.send_client_close(module)\n        if module.connected:\n            self.ids_in_use.pop(module.mod_id, None)\n        del self.modules[module.conn]")]),
    dict(name="c03-silent-recv-helper-terminates-on-eof", property="C03", expect="silent",
         edits=[dict(file=M, old="    def read_message(self, sock: socket.socket) -> bool:",
                     new="    def _recv_exact(self, sock: socket.socket, view, size: int) -> int:\n        nbytes = sock.recv_into(view, size, socket.MSG_WAITALL)\n        while 0 < nbytes < size:\n            got = sock.recv_into(view[nbytes:], size - nbytes, socket.MSG_WAITALL)\n            if got == 0:\n                break\n            nbytes += got\n        return nbytes\n\n    def read_message(self, sock: socket.socket) -> bool:"),
                dict(file=M, old="            nbytes = sock.recv_into(self.data_buffer, data_size, socket.MSG_WAITALL)", new="            nbytes = self._recv_exact(sock, self.data_view, data_size)")]),
    dict(name="c03-recv-helper-spins-on-eof", property="C03", rule="C03-L",
         edits=[dict(file=M, old="    def read_message(self, sock: socket.socket) -> bool:",
                     new="    def _recv_exact(self, sock: socket.socket, view, size: int) -> int:\n        nbytes = sock.recv_into(view, size, socket.MSG_WAITALL)\n        while 0 < nbytes < size:\n            nbytes += sock.recv_into(view[nbytes:], size - nbytes, socket.MSG_WAITALL)\n        return nbytes\n\n    def read_message(self, sock: socket.socket) -> bool:"),
                dict(file=M, old="            nbytes = sock.recv_into(self.data_buffer, data_size, socket.MSG_WAITALL)", new="            nbytes = self._recv_exact(sock, self.data_view, data_size)")]),
    dict(name="c01-process-unread-frame", property="C01", rule="C01-R5", file=M,
         old="                                if got_msg:\n                                    self.process_message(src)", new="                                self.process_message(src)"),
    dict(name="c01-skip-frames-of-daemons", property="C01", rule="C01-R5", file=M,
         old="                                if got_msg:\n                                    self.process_message(src)", new="                                if got_msg and not src.is_daemon:\n                                    self.process_message(src)"),
    dict(name="c01-silent-read-tested-in-place", property="C01", expect="silent", file=M,
         old="""                                try:
                                    got_msg = self.read_message(client_socket)
                                except ConnectionError as err:
                                    self.disconnect_module(src)
                                    self.logger.error(
                                        f"Connection Error on read, disconnecting  {src!s} - {err!s}"
                                    )
                                    continue

                                if got_msg:
                                    self.process_message(src)""",
         new="""                                try:
                                    if self.read_message(client_socket):
                                        self.process_message(src)
                                except ConnectionError as err:
                                    self.disconnect_module(src)
                                    self.logger.error(
                                        f"Connection Error on read, disconnecting  {src!s} - {err!s}"
                                    )
                                    continue"""),
    dict(name="c05-silent-ack-header-cached-per-module", property="C05", expect="silent", file=M,
         old="            src_module (Module): Module to send ACK to\n        \"\"\"\n        header = self.header_cls()\n        header.msg_type = cd.MT_ACKNOWLEDGE\n        header.send_time = time.perf_counter()\n        header.src_mod_id = cd.MID_MESSAGE_MANAGER\n        header.dest_mod_id = src_module.mod_id\n        header.num_data_bytes = 0\n",
         new="            src_module (Module): Module to send ACK to\n        \"\"\"\n        header = getattr(src_module, 'ack_header', None)\n        if header is None:\n            header = self.header_cls()\n            header.msg_type = cd.MT_ACKNOWLEDGE\n            header.src_mod_id = cd.MID_MESSAGE_MANAGER\n            header.num_data_bytes = 0\n            src_module.ack_header = header\n        header.send_time = time.perf_counter()\n        header.dest_mod_id = src_module.mod_id\n"),
    dict(name="c05-ack-header-cached-without-length", property="C05", rule="C05-L", file=M,
         old="            src_module (Module): Module to send ACK to\n        \"\"\"\n        header = self.header_cls()\n        header.msg_type = cd.MT_ACKNOWLEDGE\n        header.send_time = time.perf_counter()\n        header.src_mod_id = cd.MID_MESSAGE_MANAGER\n        header.dest_mod_id = src_module.mod_id\n        header.num_data_bytes = 0\n",
         new="            src_module (Module): Module to send ACK to\n        \"\"\"\n        header = getattr(src_module, 'ack_header', None)\n        if header is None:\n            header = self.header_cls()\n            header.msg_type = cd.MT_ACKNOWLEDGE\n            header.src_mod_id = cd.MID_MESSAGE_MANAGER\n            src_module.ack_header = header\n        header.send_time = time.perf_counter()\n        header.dest_mod_id = src_module.mod_id\n"),
    dict(name="c07-short-header-tested-by-truthiness", property="C07", rule="C07-F", file=M,
         old="        if nbytes != self.header_size:", new="        if not nbytes:"),
    dict(name="c07-silent-short-header-less-than", property="C07", expect="silent", file=M,
         old="        if nbytes != self.header_size:", new="        if nbytes < self.header_size:"),
    dict(name="c07-short-payload-tested-for-zero", property="C07", rule="C07-F", file=M,
         old="            if nbytes != data_size:", new="            if nbytes == 0:"),
    dict(name="c05-module-without-configured-header-class", property="C05", rule="C05-H",
         edits=[dict(file=M, old="    header_cls: Type[MessageHeader]\n", new="    header_cls: Type[MessageHeader] = MessageHeader\n"),
                dict(file=M, old="                                self.generate_uid(), conn, address, self.header_cls", new="                                self.generate_uid(), conn, address")]),
    dict(name="c01-module-without-configured-header-class", property="C01", rule="C01-R8",
         edits=[dict(file=M, old="    header_cls: Type[MessageHeader]\n", new="    header_cls: Type[MessageHeader] = MessageHeader\n"),
                dict(file=M, old="                                self.generate_uid(), conn, address, self.header_cls", new="                                self.generate_uid(), conn, address")]),

    # ---------------- wave 5 ----------------
    dict(name="c01-subscribe-all-registers-last-individual-type", property="C01", rule="C01-R9", file=M,
         old="""            for sub_type in src_module.subs:
                self.subscriptions[sub_type].discard(src_module)
            src_module.subs.clear()

            self.subscriptions[sub.msg_type].add(src_module)
            src_module.subs.add(sub.msg_type)
            self.logger.debug(f"SUBSCRIBE- {src_module!s} to ALL_MESSAGE_TYPES")""",
         new="""            sub_type = sub.msg_type
            for sub_type in src_module.subs:
                self.subscriptions[sub_type].discard(src_module)
            src_module.subs.clear()

            self.subscriptions[sub_type].add(src_module)
            src_module.subs.add(sub_type)
            self.logger.debug(f"SUBSCRIBE- {src_module!s} to ALL_MESSAGE_TYPES")"""),
    dict(name="c03-validation-back-on-in-debug-mode", property="C03", rule="C03-V", file=M,
         old="            with disable_message_validation():\n                while self._keep_running:",
         new="            with disable_message_validation(ignore=self._debug):\n                while self._keep_running:"),
    dict(name="c03-silent-validation-off-explicit-false", property="C03", expect="silent", file=M,
         old="            with disable_message_validation():\n                while self._keep_running:",
         new="            with disable_message_validation(ignore=False):\n                while self._keep_running:"),
    dict(name="c07-log-record-published-before-deregistration", property="C07", rule="C07-W", file=M,
         old="""            return

        # Drop all subscriptions for this module
        for msg_type in module.subs:""",
         new="""            return

        self.logger.debug(f"CLIENT_CLOSE - {module!s}")

        # Drop all subscriptions for this module
        for msg_type in module.subs:"""),
    dict(name="c07-client-closed-published-before-logger-erase", property="C07", rule="C07-W", file=M,
         old="""        # Discard from logger module set if needed
        self.logger_modules.discard(module)

        # Drop from our module mapping
        module.close()

        self.send_client_close(module)""",
         new="""        self.send_client_close(module)

        # Discard from logger module set if needed
        self.logger_modules.discard(module)

        # Drop from our module mapping
        module.close()
"""),
    dict(name="c07-silent-log-after-deregistration", property="C07", expect="silent", file=M,
         old="""        # Drop from our module mapping
        module.close()

        self.send_client_close(module)""",
         new="""        # Drop from our module mapping
        module.close()
        self.logger.debug(f"CLIENT_CLOSE - {module!s}")

        self.send_client_close(module)"""),
    dict(name="c19-ack-in-handler-skipped-by-early-return", property="C19", rule="C19-D",
         edits=[dict(file=M, old="            self.add_subscription(src_module, self.message)\n            self.send_ack(src_module)", new="            self.add_subscription(src_module, self.message)"),
                dict(file=M, old='            self.logger.debug(f"SUBSCRIBE- {src_module!s} to MT:{sub.msg_type}")\n', new='            self.logger.debug(f"SUBSCRIBE- {src_module!s} to MT:{sub.msg_type}")\n        self.send_ack(src_module)\n')]),
    dict(name="c14-silent-deliver-flag", property="C14", expect="silent", file=M,
         old="""            if module.conn in self.wlist:
                try:
                    if (
                        dest_mod_id == 0
                        or (module.mod_id == dest_mod_id)
                        or module.is_logger
                    ):
                        module.send_message(header, data)
                        module.drops = 0""",
         new="""            if module.conn in self.wlist:
                try:
                    wanted = (
                        dest_mod_id == 0
                        or (module.mod_id == dest_mod_id)
                        or module.is_logger
                    )
                    if wanted:
                        module.send_message(header, data)
                        module.drops = 0"""),
    dict(name="c01-deliver-flag-ignores-filter", property="C01", rule="C01-R2", file=M,
         old="""            if module.conn in self.wlist:
                try:
                    if (
                        dest_mod_id == 0
                        or (module.mod_id == dest_mod_id)
                        or module.is_logger
                    ):
                        module.send_message(header, data)
                        module.drops = 0""",
         new="""            if module.conn in self.wlist:
                try:
                    wanted = (
                        dest_mod_id == 0
                        or (module.mod_id == dest_mod_id)
                        or module.is_logger
                    )
                    wanted = True
                    if wanted:
                        module.send_message(header, data)
                        module.drops = 0"""),

    # ---------------- wave 6 ----------------
    dict(name="c01-recipient-union-written-into-the-table", property="C01", rule="C01-R10", file=M,
         old="""        subscribers = list(
            chain(
                self.subscriptions[header.msg_type],
                self.subscriptions[ALL_MESSAGE_TYPES],
            )
        )
""",
         new="""        subscribers = self.subscriptions[header.msg_type]
        subscribers |= self.subscriptions[ALL_MESSAGE_TYPES]
        subscribers = list(subscribers)
"""),
    dict(name="c01-timeout-on-accepted-connections", property="C01", rule="C01-R11", file=M,
         old="                            (conn, address) = self.listen_socket.accept()\n", new="                            (conn, address) = self.listen_socket.accept()\n                            conn.settimeout(5.0)\n"),
    dict(name="c03-log-text-in-percent-arguments", property="C03", rule="C03-R", file=M,
         old="""                self.logger.error(
                    f"SET_NAME - {module.ipaddr} - Module name is not valid ascii. Closing connection."
                )""",
         new="""                self.logger.error(
                    "SET_NAME - %s - Module name is not valid ascii. Closing connection.", module.ipaddr
                )"""),
    dict(name="c03-shutdown-before-close", property="C03", rule="C03-X", file=M,
         old='        """Close connection"""\n        self.conn.close()\n',
         new='        """Close connection"""\n        try:\n            self.conn.shutdown(socket.SHUT_RDWR)\n        except ConnectionError:\n            pass\n        self.conn.close()\n'),
    dict(name="c07-shutdown-before-close", property="C07", rule="C07-X", file=M,
         old='        """Close connection"""\n        self.conn.close()\n',
         new='        """Close connection"""\n        try:\n            self.conn.shutdown(socket.SHUT_RDWR)\n        except ConnectionError:\n            pass\n        self.conn.close()\n'),
    dict(name="c07-silent-shutdown-guarded-by-oserror", property="C07", expect="silent", file=M,
         old='        """Close connection"""\n        self.conn.close()\n',
         new='        """Close connection"""\n        try:\n            self.conn.shutdown(socket.SHUT_RDWR)\n        except OSError:\n            pass\n        self.conn.close()\n'),
    dict(name="c05-log-record-on-the-success-path-of-the-fan-out", property="C05", rule="C05-Q", file=M,
         old="                        module.send_message(header, data)\n                        module.drops = 0\n",
         new="                        module.send_message(header, data)\n                        if module.drops:\n                            self.logger.info(f\"RESUMED - {module!s}\")\n                        module.drops = 0\n"),
    dict(name="c14-notice-header-copied-from-the-failed-header", property="C14", rule="C14-N", file=M,
         old="        out_header = self.header_cls()\n        data = cd.MDF_FAILED_MESSAGE()", new="        out_header = self.header_cls.from_buffer_copy(header)\n        data = cd.MDF_FAILED_MESSAGE()"),
    dict(name="c19-payload-read-without-waitall", property="C19", rule="C19-R", file=M,
         old="            nbytes = sock.recv_into(self.data_buffer, data_size, socket.MSG_WAITALL)", new="            nbytes = sock.recv_into(self.data_buffer, data_size)"),
]
